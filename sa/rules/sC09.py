"""C09 rules of the fourth strengthening round: literal texts (C09-LIT), number-table layout (C09-NUMTAB),
decision tables of the constant folder (C09-FOLD), coverage of the pooling keys (C09-KEYCOV).

All of them fold repository code on the AST with the checker's own evaluator (sa/rules/pC10.Folder and
sa/rules/sC25.ObjFolder); the reference values come from the checker's own CPython (int(text, 0), float(), operator
semantics of bool/int).  Nothing of the repository is imported or executed."""
import ast, itertools, math, re

from ..core import Rule, AnalysisError, node_src
from ..engine import tables
from .pC10 import Folder, Closure, Env, Opaque, Unfoldable, ClassRef
from .sC25 import ObjFolder, Inst, Bound, NoAttribute

UTILS = 'Cython/Utils.py'
EXN = 'Cython/Compiler/ExprNodes.py'
CODE = 'Cython/Compiler/Code.py'
OPT = 'Cython/Compiler/Optimize.py'

# ----------------------------------------------------------------------------------------------------- literal shapes
# every prefix class of the integer token language (Lexicon.intconst) x sign x digit-string classes (one digit, two, many;
# digits that are / are not valid in a smaller base; values around the 13-digit "use hex" and the 32/64-bit boundaries)
_DIGITS = {
    'dec': ['0', '7', '9', '10', '42', '255', '2147483647', '2147483648', '4294967296', '9999999999999', '10000000000001',
            '9223372036854775807', '9223372036854775808', '18446744073709551616', '123456789012345678901234567890'],
    'hex': ['0x0', '0x7', '0xF', '0Xa', '0x1F', '0xfF', '0x7fffffff', '0x80000000', '0xFFFFFFFFFFFFFFFF', '0x123456789abcdefABCDEF'],
    'oct': ['0o0', '0o7', '0O17', '0o777', '0o17777777777', '0o20000000000'],
    'bin': ['0b0', '0b1', '0B101', '0b11111111', '0b10000000000000000000000000000000'],
    'py2oct': ['00', '07', '017', '0777', '000'],
}


def literal_shapes():
    for cls, texts in _DIGITS.items():
        for t in texts:
            for sign in ('', '-'):
                yield cls, sign + t


def py_value(text):
    """the value CPython (the checker's interpreter) gives the literal; Py2-style octal ('017') is read in base 8 as Cython documents."""
    neg = text.startswith('-')
    body = text[1:] if neg else text
    if len(body) > 1 and body[0] == '0' and body[1].isdigit():
        v = int(body, 8)
    else:
        v = int(body, 0)
    return -v if neg else v


def c_literal_value(text):
    """value of an integer literal under the C grammar (6.4.4.1): optional '-' (unary minus), 0x hex / leading 0 octal / decimal, suffix [uUlL]*;
    '(...)' around it is transparent.  None when it is not a C integer literal."""
    t = text.strip()
    while t.startswith('(') and t.endswith(')'):
        t = t[1:-1].strip()
    neg = False
    if t.startswith('-'):
        neg, t = True, t[1:].strip()
    m = re.fullmatch(r'(0[xX][0-9a-fA-F]+|0[0-7]*|[1-9][0-9]*)([uU]?[lL]{0,2}|[lL]{1,2}[uU]?)', t)
    if not m:
        return None
    d = m.group(1)
    v = int(d, 16) if d[:2].lower() == '0x' else int(d, 8) if d[0] == '0' and len(d) > 1 else int(d, 10)
    return -v if neg else v


def _float_c_value(text):
    """value of the C expression emitted for a float constant: a decimal floating literal, or an expression over Py_HUGE_VAL."""
    src = text.replace('Py_HUGE_VAL', '__inf__')
    try:
        tree = ast.parse(src.strip(), mode='eval')
    except SyntaxError:
        return None

    def ev(n):
        if isinstance(n, ast.Expression):
            return ev(n.body)
        if isinstance(n, ast.Constant) and isinstance(n.value, (int, float)):
            return float(n.value)
        if isinstance(n, ast.Name) and n.id == '__inf__':
            return math.inf
        if isinstance(n, ast.UnaryOp) and isinstance(n.op, (ast.USub, ast.UAdd)):
            v = ev(n.operand)
            return -v if isinstance(n.op, ast.USub) else v
        if isinstance(n, ast.BinOp) and isinstance(n.op, (ast.Mult, ast.Add, ast.Sub, ast.Div)):
            a, b = ev(n.left), ev(n.right)
            if isinstance(n.op, ast.Mult):
                return a * b
            if isinstance(n.op, ast.Add):
                return a + b
            if isinstance(n.op, ast.Sub):
                return a - b
            return a / b if b else math.nan
        raise ValueError(ast.dump(n))
    try:
        return ev(tree)
    except (ValueError, TypeError):
        return None


FLOAT_TEXTS = ['0.0', '-0.0', '1.5', '-1.5', '1e22', '-2.5e-3', '1e999', '-1e999', 'inf', '-inf', 'nan', '.5', '5.']


def _same_float(a, b):
    if a is None or b is None:
        return False
    if math.isnan(a) or math.isnan(b):
        return math.isnan(a) and math.isnan(b)
    return a == b and math.copysign(1.0, a) == math.copysign(1.0, b)


def rule_literals(ctx):
    r = Rule('C09-LIT', 'numeric literal texts: Utils.str_to_number, IntNode.value_as_c_integer_string, the text pooled by IntNode.generate_evaluation_code and '
             'FloatNode.get_constant_c_result_code folded on every literal shape (base prefix x sign x digit classes; nan / +-inf / +-0.0 / finite): the text handed to C '
             'or to the constant pool denotes the value CPython gives the source literal', floor=290)
    ix = ctx.index
    f = ObjFolder(ctx)
    stn = f.function(UTILS, 'str_to_number')
    intnode = ix.cls('ExprNodes', 'IntNode')
    floatnode = ix.cls('ExprNodes', 'FloatNode')
    line_stn = tables.find_function(ctx.parse(UTILS), 'str_to_number').lineno
    bad = {}

    def note(key, rel, line, msg):
        bad.setdefault(key, (rel, line, msg))

    for cls, text in literal_shapes():
        want = py_value(text)
        # (a) str_to_number
        r.inst('str_to_number:' + text, sample='str_to_number(%r) == %d' % (text, want))
        try:
            got = stn(text)
        except AnalysisError:
            raise
        except Exception as e:
            got = e
        if got != want or type(got) is not int:
            note('Utils.str_to_number:%s%s' % (cls, ':negative' if text.startswith('-') else ''), UTILS, line_stn,
                 'Utils.str_to_number(%r) gives %r, CPython reads the literal as %d: the compile-time value, the pooled Python constant and every folded expression built from it are wrong' % (text, got, want))
        # (b) C text of a C-typed integer constant, for the suffix combinations the parser can produce
        for unsigned, longness in (('', ''), ('U', ''), ('', 'L'), ('', 'LL'), ('U', 'LL')):
            if unsigned and text.startswith('-'):
                continue
            if (unsigned or longness) and text.lstrip('-') not in _DIGITS[cls][1:4]:
                continue        # the suffix only switches the decimal -> hex rewrite off: three digit strings per base suffice
            key = 'c-text:%s%s%s' % (text, unsigned, longness)
            node = Inst(intnode, dict(value=text, unsigned=unsigned, longness=longness), label=text)
            try:
                ctext = f.inst_attr(node, 'value_as_c_integer_string')()
            except AnalysisError:
                raise
            except Exception as e:
                ctext = e
            r.inst(key, sample='%r%s%s -> C %r' % (text, unsigned, longness, ctext))
            cval = c_literal_value(ctext) if isinstance(ctext, str) else None
            if cval != want:
                note('ExprNodes.IntNode.value_as_c_integer_string:%s%s' % (cls, ':negative' if text.startswith('-') else ''), EXN, intnode.methods['value_as_c_integer_string'].lineno,
                     'the C text for the integer literal %r%s%s is %r, which a C compiler reads as %s; CPython gives %d' % (text, unsigned, longness, ctext, cval, want))
        # (c) the text under which a Python int constant is pooled and later converted by generate_num_constants
        log = []
        code = Opaque('code', log)
        node = Inst(intnode, dict(value=text, unsigned='', longness='', type=Inst(None, {'is_pyobject': True}, flags_default=False)), label=text)
        try:
            f.inst_attr(node, 'generate_evaluation_code')(code)
        except AnalysisError:
            raise
        except Exception as e:
            log.append(('crash', (e,), {}))
        calls = [a for name, a, kw in log if name == 'code.get_py_int']
        r.inst('pool-text:' + text, sample='%r pooled as %r' % (text, calls[0][0] if calls else None))
        if len(calls) != 1 or not isinstance(calls[0][0], str):
            note('ExprNodes.IntNode.generate_evaluation_code:no-pool-call', EXN, intnode.methods['generate_evaluation_code'].lineno,
                 'IntNode.generate_evaluation_code(%r) does not request exactly one pooled Python int (calls: %r)' % (text, log[:3]))
        else:
            ptext = calls[0][0]
            try:
                pval = py_value(ptext)
            except ValueError:
                pval = None
            if pval != want:
                note('ExprNodes.IntNode.generate_evaluation_code:pool-text%s' % (':negative' if text.startswith('-') else ''), EXN, intnode.methods['generate_evaluation_code'].lineno,
                     'the Python int constant for the literal %r is pooled under the text %r (value %s), CPython gives %d' % (text, ptext, pval, want))
    # (e) C long / Python int split of untyped integer literals: C guarantees only 32 bits for long
    clong, pyint = Inst(None, {}, label='c_long', flags_default=False), Inst(None, {}, label='py-int', flags_default=False)
    f._globals[('Cython/Compiler/PyrexTypes.py', 'c_long_type')] = clong
    f._globals[('Cython/Compiler/Builtin.py', 'int_type')] = pyint
    for v in (-2 ** 63, -2 ** 31 - 1, -2 ** 31, -1, 0, 2 ** 31 - 1, 2 ** 31, 2 ** 32, 2 ** 63):
        node = Inst(intnode, dict(value=str(v), constant_result=v, unsigned='', longness='', is_c_literal=None, type=None), label=str(v))
        try:
            t = f.inst_attr(node, 'find_suitable_type_for_value')()
        except AnalysisError:
            raise
        except Exception as e:
            t = e
        r.inst('int-type:%d' % v, sample='%d -> %r' % (v, t))
        want_t = clong if -2 ** 31 <= v < 2 ** 31 else pyint
        if t is not want_t:
            note('ExprNodes.IntNode.find_suitable_type_for_value:%s' % ('boundary' if abs(v) in (2 ** 31, 2 ** 31 + 1, 2 ** 31 - 1) else 'range'), EXN, intnode.methods['find_suitable_type_for_value'].lineno,
                 'the untyped integer literal %d is typed %r; expected %r: a C long is only guaranteed to hold -2**31 .. 2**31-1 (32-bit long on Windows and ILP32), larger '
                 'literals must stay Python ints' % (v, t, want_t))
    # (f) int literal coerced to a C double / Python float
    ftype = Inst(None, dict(is_float=True, is_pyfloat_type=False, is_numeric=True, is_pyobject=False), label='c_double', flags_default=False)

    def mkfloat(folder, cref, args, kwargs):
        if cref.node.name == 'FloatNode':
            return Inst(folder.classinfo(cref), dict(kwargs), label='FloatNode')
        return NotImplemented
    f._construct = mkfloat
    for v in (0, 5, -3, 2 ** 40, -2 ** 31):
        node = Inst(intnode, dict(value=str(v), constant_result=v, unsigned='', longness='', type=clong, pos=('<src>', 1, 0)), label=str(v))
        try:
            got = f.inst_attr(node, 'coerce_to')(ftype, None)
        except AnalysisError:
            raise
        except Exception as e:
            got = e
        r.inst('int-to-float:%d' % v, sample='%d -> %r' % (v, got.attrs.get('value') if isinstance(got, Inst) else got))
        ok = isinstance(got, Inst) and got.cls is not None and got.cls.name == 'FloatNode'
        if ok:
            try:
                ok = float(got.attrs.get('value')) == float(v) and got.attrs.get('constant_result') == float(v)
            except (TypeError, ValueError):
                ok = False
        if not ok:
            note('ExprNodes.IntNode.coerce_to:float%s' % (':negative' if v < 0 else ''), EXN, intnode.methods['coerce_to'].lineno,
                 'the integer constant %d coerced to a C double becomes %r (text %r, constant_result %r); expected %r' % (
                     v, got, got.attrs.get('value') if isinstance(got, Inst) else None, got.attrs.get('constant_result') if isinstance(got, Inst) else None, float(v)))
    f._construct = None
    # (d) float constants
    for text in FLOAT_TEXTS:
        want = float(text)
        node = Inst(floatnode, dict(value=text), label=text)
        try:
            ctext = f.inst_attr(node, 'get_constant_c_result_code')()
        except AnalysisError:
            raise
        except Exception as e:
            ctext = e
        r.inst('float-c-text:' + text, sample='%r -> C %r' % (text, ctext))
        cval = _float_c_value(ctext) if isinstance(ctext, str) else None
        if not _same_float(cval, want):
            cls = 'nan' if math.isnan(want) else ('-inf' if want < 0 else 'inf') if math.isinf(want) else 'finite'
            note('ExprNodes.FloatNode.get_constant_c_result_code:%s' % cls, EXN, floatnode.methods['get_constant_c_result_code'].lineno,
                 'the C expression for the float constant %r is %r, which evaluates to %r; CPython gives %r' % (text, ctext, cval, want))
    for key, (rel, line, msg) in sorted(bad.items()):
        r.violate(key, rel, line, msg)
    r.positive_control(c_literal_value('017') == 15 and c_literal_value('-0x10UL') == -16 and c_literal_value('0b1') is None and py_value('-017') == -15 and
                       not _same_float(_float_c_value('(-Py_HUGE_VAL)'), math.inf) and not _same_float(_float_c_value('0.0'), -0.0),
                       'reference readers: C octal / hex+suffix, rejected 0b, Py2 octal, signed infinities and zeros')
    return r


# =====================================================================================================
# C09-NUMTAB: layout of the module number table
# =====================================================================================================

class _CText:
    """Reader for the small C subset generate_num_constants emits (declarations of constant arrays, one counted loop per
    block, a conditional-expression chain selecting the array).  Anything else raises AnalysisError."""

    TOK = re.compile(r'\s*(?:(\d+)|([A-Za-z_]\w*)|(<=|>=|==|!=|&&|\|\||[-+*/?:()<>\[\]]))')

    def __init__(self, text, env):
        self.toks = []
        pos = 0
        text = text.strip()
        while pos < len(text):
            m = self.TOK.match(text, pos)
            if not m:
                raise AnalysisError('emitted C expression not understood: %r' % text)
            self.toks.append(m.group(1) and ('num', int(m.group(1))) or m.group(2) and ('id', m.group(2)) or ('op', m.group(3)))
            pos = m.end()
        self.i, self.env = 0, env

    def peek(self):
        return self.toks[self.i] if self.i < len(self.toks) else (None, None)

    def take(self, val=None):
        t = self.peek()
        if val is not None and t[1] != val:
            raise AnalysisError('emitted C expression: expected %r, found %r' % (val, t[1]))
        self.i += 1
        return t

    def expr(self):
        c = self.cmp()
        if self.peek()[1] == '?':
            self.take()
            a = self.expr()
            self.take(':')
            b = self.expr()
            return a if c() else b
        return c

    def cmp(self):
        a = self.add()
        while self.peek()[1] in ('<', '>', '<=', '>=', '==', '!='):
            op = self.take()[1]
            b = self.add()
            a = (lambda a, b, op: lambda: {'<': a() < b(), '>': a() > b(), '<=': a() <= b(), '>=': a() >= b(), '==': a() == b(), '!=': a() != b()}[op])(a, b, op)
        return a

    def add(self):
        a = self.unary()
        while self.peek()[1] in ('+', '-'):
            op = self.take()[1]
            b = self.unary()
            a = (lambda a, b, op: lambda: a() + b() if op == '+' else a() - b())(a, b, op)
        return a

    def unary(self):
        if self.peek()[1] == '-':
            self.take()
            a = self.unary()
            return lambda: -a()
        return self.primary()

    def primary(self):
        k, v = self.take()
        if k == 'num':
            return lambda: v
        if k == 'op' and v == '(':
            e = self.expr()
            self.take(')')
            return e
        if k == 'id':
            if self.peek()[1] == '[':
                self.take()
                idx = self.expr()
                self.take(']')
                env = self.env

                def get():
                    arr, j = env[v], idx()
                    if not isinstance(arr, list) or not (0 <= j < len(arr)):
                        raise IndexError('%s[%s] outside its %s elements' % (v, j, len(arr) if isinstance(arr, list) else '?'))
                    return arr[j]
                return get
            env = self.env
            return lambda: env[v]
        raise AnalysisError('emitted C expression: unexpected token %r' % (v,))


def _c_unescape(lit):
    """bytes denoted by the C string literal body (adjacent literals `""` already split by the caller)."""
    out, i = bytearray(), 0
    while i < len(lit):
        ch = lit[i]
        if ch != '\\':
            out.append(ord(ch))
            i += 1
            continue
        m = re.match(r'\\([0-7]{1,3})', lit[i:])
        if m:
            out.append(int(m.group(1), 8) & 0xFF)
            i += len(m.group(0))
            continue
        simple = {'n': 10, 't': 9, 'r': 13, '\\': 92, '"': 34, "'": 39, '0': 0}
        if i + 1 < len(lit) and lit[i + 1] in simple:
            out.append(simple[lit[i + 1]])
            i += 2
            continue
        raise AnalysisError('escape not understood in emitted C string: %r' % lit[i:i + 6])
    return bytes(out)


INT_RANGES = {'int8_t': 8, 'int16_t': 16, 'int32_t': 32, 'int64_t': 64}


def run_number_table(lines, defines, tab_cname):
    """-> ({slot: value}, problems [str]) : the values the emitted initialisation code stores into the table."""
    slots, problems = {}, []
    i = 0
    env = {}
    base = None
    tabptr = None
    widest = 0
    cstr = None        # [bytes, position]
    cstr_name = None
    while i < len(lines):
        ln = lines[i].strip()
        i += 1
        if ln in ('{', '}', '') or ln.startswith('#') or ln == 'ERR' or ln.startswith('/*'):
            if ln == '{':
                env, base, widest, cstr = {}, None, 0, None
            continue
        m = re.fullmatch(r'PyObject\s*\*\*\s*(\w+) = (\S+?)(?: \+ (\d+))?;', ln)
        if m and m.group(1) != 'table':
            tabptr = m.group(1)
            base = int(m.group(3) or 0)
            continue
        m = re.fullmatch(r'(\w+) const (\w+)\[\] = \{(.*)\};', ln)
        if m:
            ctype, name, vals = m.groups()
            items = []
            for v in vals.split(','):
                v = v.strip()
                if ctype == 'double':
                    fv = _float_c_value(v)
                    if fv is None:
                        raise AnalysisError('float initialiser %r not understood' % v)
                    items.append(fv)
                else:
                    iv = c_literal_value(v)
                    if iv is None:
                        raise AnalysisError('integer initialiser %r not understood' % v)
                    bits = INT_RANGES.get(ctype)
                    if bits is None:
                        raise AnalysisError('array element type %r not understood' % ctype)
                    widest = max(widest, bits)
                    if not (-(1 << (bits - 1)) <= iv < (1 << (bits - 1))):
                        problems.append('the value %d is stored in the %s array %s, which cannot hold it (it wraps to %d)' % (iv, ctype, name, ((iv + (1 << (bits - 1))) % (1 << bits)) - (1 << (bits - 1))))
                        iv = ((iv + (1 << (bits - 1))) % (1 << bits)) - (1 << (bits - 1))
                    items.append(iv)
            env[name] = items
            continue
        m = re.fullmatch(r'const char\s*\*\s*(\w+) = "(.*)";', ln)
        if m:
            cstr_name = m.group(1)
            cstr = [b''.join(_c_unescape(p) for p in m.group(2).split('""')) + b'\0', 0]
            continue
        m = re.fullmatch(r'for \((?:int|Py_ssize_t) (\w+) = (\d+); \1 < (\d+); (?:\1\+\+|\+\+\1)\) \{', ln)
        if m:
            lv = m.group(1)
            m = re.fullmatch(r'for \((?:int|Py_ssize_t) \w+ = (\d+); \w+ < (\d+); .*\) \{', ln)
            if base is None:
                raise AnalysisError('loop before the table pointer was set')
            body = []
            depth = 1
            while i < len(lines):
                b = lines[i].strip()
                i += 1
                if b.endswith('{'):
                    depth += 1
                if b == '}':
                    depth -= 1
                    if depth == 0:
                        break
                body.append(b)
            endvar = None
            for it in range(int(m.group(1)), int(m.group(2))):
                env[lv] = it
                for b in body:
                    if b == 'ERR' or b.startswith('#'):
                        continue
                    md = re.fullmatch(r'char\s*\*\s*(\w+);', b)
                    if md:
                        endvar = md.group(1)
                        continue
                    mm = re.fullmatch(r'%s\[%s\] = (\w+)\((.*)\);' % (re.escape(tabptr or ''), re.escape(lv)), b)
                    if mm:
                        func, arg = mm.groups()
                        if func == 'PyLong_FromString':
                            a = [x.strip() for x in arg.split(',')]
                            if cstr is None or a[0] != cstr_name or len(a) != 3 or a[1] != '&%s' % endvar:
                                raise AnalysisError('PyLong_FromString call not understood: %r' % b)
                            radix = int(a[2])
                            data, p = cstr
                            q = p
                            if data[q:q + 1] in (b'-', b'+'):
                                q += 1
                            digs = '0123456789abcdefghijklmnopqrstuvwxyz'[:radix]
                            st = q
                            while q < len(data) and chr(data[q]).lower() in digs:
                                q += 1
                            if q == st:
                                problems.append('PyLong_FromString finds no digits at offset %d of the big-integer text' % p)
                                val = None
                            else:
                                val = int(data[p:q].decode('ascii'), radix)
                            env[endvar] = q
                        else:
                            try:
                                val = _CText(arg, env).expr()()
                            except IndexError as e:
                                problems.append('the emitted initialisation loop reads %s' % e)
                                val = None
                            if func == 'PyLong_FromLong' and widest > 32:
                                problems.append('64-bit constants are converted with PyLong_FromLong: `long` has 32 bits on LLP64 platforms (Windows), the values are truncated')
                            elif func not in ('PyLong_FromLong', 'PyLong_FromLongLong', 'PyFloat_FromDouble'):
                                raise AnalysisError('conversion function %r not understood' % func)
                            if func == 'PyFloat_FromDouble':
                                val = float(val) if val is not None else None
                        slot = base + it
                        if slot in slots:
                            problems.append('table slot %d is initialised twice (first with %r, then with %r)' % (slot, slots[slot], val))
                        slots[slot] = val
                        continue
                    mm = re.fullmatch(r'(\w+) = (\w+) \+ (\d+);', b)
                    if mm and mm.group(1) == cstr_name and mm.group(2) == endvar:
                        cstr[1] = env[endvar] + int(mm.group(3))
                        continue
                    raise AnalysisError('emitted loop statement not understood: %r' % b)
            continue
        if re.match(r'(PyObject \*\*table|for \(Py_ssize_t i=0|PyUnstable_|if \(|Py_SET_REFCNT|\{|\})', ln):
            continue        # immortalisation block
        raise AnalysisError('emitted statement not understood: %r' % ln)
    where = {}
    for d in defines:
        m = re.fullmatch(r'#define (\w+) %s\[(\d+)\]' % re.escape(tab_cname), d.strip())
        if not m:
            raise AnalysisError('emitted #define not understood: %r' % d)
        where[m.group(1)] = int(m.group(2))
    return slots, where, problems


NUM_CLASSES = {
    'float': [('float', '1.5', '1.5'), ('float', '-0.0', '-0.0'), ('float', '1e999', 'Py_HUGE_VAL')],
    'int8': [5, -128, 127, 0],
    'int16': [128, -129, 32767],
    'int32': [32768, 2 ** 31 - 1, -2 ** 31],
    'int64': [2 ** 31, 2 ** 63 - 1, -(2 ** 63 - 1), 10 ** 13 + 1],
    'big': [2 ** 63, -2 ** 63, 2 ** 64, -2 ** 70, 2 ** 200 + 123, 8 * 32 ** 20],
}


def _writer(lines):
    w = Inst(None, {}, label='writer')
    w.attrs.update(
        putln=lambda s='', **kw: lines.append(s), put=lambda s='', **kw: lines.append(s),
        name_in_main_c_code_module_state=lambda x: 'MS->' + x, name_in_module_state=lambda x: 'MS->' + x,
        error_goto_if_null=lambda *a, **k: 'ERR', error_goto=lambda *a, **k: 'ERR')
    return w


def rule_numtab(ctx):
    r = Rule('C09-NUMTAB', 'GlobalState.generate_num_constants folded on every combination of constant classes (floats, 1/2/4/8-byte ints, big ints): interpreting the emitted '
             'arrays, loops and #defines, every constant name denotes the table slot that is initialised with exactly its value (array element types hold their values, '
             'offsets and index arithmetic agree, PyLong_FromLong only for <= 32-bit data, big-int texts are separated so that PyLong_FromString reads each one)', floor=53)
    ix = ctx.index
    gs = ix.cls('Code', 'GlobalState')
    if 'generate_num_constants' not in gs.methods:
        raise AnalysisError('GlobalState.generate_num_constants vanished')
    line = gs.methods['generate_num_constants'].lineno
    f = ObjFolder(ctx)
    tab = f.module_attr('Cython/Compiler/Naming.py', 'numbertab_cname')
    bad = {}
    names = list(NUM_CLASSES)
    for mask in range(1, 1 << len(names)):
        chosen = [n for i, n in enumerate(names) if mask >> i & 1]
        consts, expect = {}, {}
        k = 0
        for cls in chosen:
            for item in NUM_CLASSES[cls]:
                k += 1
                cname = 'K%d' % k
                if cls == 'float':
                    _, text, ccode = item
                    consts[(text, 'float')] = Inst(None, dict(cname=cname, value=text, py_type='float', value_code=ccode), label=cname)
                    expect[cname] = float(text)
                else:
                    text = hex(item) if item > 10 ** 13 else str(item)
                    consts[(text, 'int')] = Inst(None, dict(cname=cname, value=text, py_type='int', value_code=None), label=cname)
                    expect[cname] = item
        parts = {}
        out = {}
        for p in ('module_state', 'module_state_traverse', 'module_state_clear', 'init_constants', 'constant_name_defines'):
            out[p] = []
            parts[p] = _writer(out[p])
        me = Inst(gs, dict(num_const_index=consts, parts=parts, module_pos=('<module>', 1, 0)), label='globalstate')
        key = 'classes:' + '+'.join(chosen)
        try:
            f.inst_attr(me, 'generate_num_constants')()
            slots, where, problems = run_number_table(out['init_constants'], out['constant_name_defines'], tab)
        except AnalysisError:
            raise
        except Exception as e:
            r.inst(key, sample='crash %r' % e)
            bad.setdefault('crash', (key, 'generate_num_constants raises %s: %s for the constant classes %s' % (type(e).__name__, e, chosen)))
            continue
        r.inst(key, sample='%d constants -> %d slots' % (len(expect), len(slots)))
        for p in problems:
            cls = 'array-type' if 'cannot hold' in p else 'fromlong' if 'PyLong_FromLong' in p else 'index' if 'reads' in p else 'slot-twice' if 'twice' in p else 'big-int-text'
            bad.setdefault(cls, (key, p))
        for cname, want in sorted(expect.items()):
            if cname not in where:
                bad.setdefault('no-define', (key, 'the constant %s (%r) gets no #define into the number table' % (cname, want)))
                continue
            got = slots.get(where[cname], 'nothing')
            same = (isinstance(got, float) and isinstance(want, float) and _same_float(got, want)) or (type(got) is int and type(want) is int and got == want)
            if not same:
                kind = 'float' if isinstance(want, float) else 'big' if want.bit_length() > 63 else 'int'
                bad.setdefault('slot:' + kind, (key, 'the %s constant %r is #defined as table slot %d, which the emitted initialisation code fills with %r' % (kind, want, where[cname], got)))
    for ck, (key, msg) in sorted(bad.items()):
        r.violate('Code.GlobalState.generate_num_constants:' + ck, CODE, line, '%s [%s]' % (msg, key))
    # positive control: the table reader on a hand-written emission whose int block forgets the float offset
    lines = ['{', 'PyObject **numbertab = MS->T;', 'double const c_constants[] = {1.5};', 'for (int i = 0; i < 1; i++) {', 'numbertab[i] = PyFloat_FromDouble(c_constants[i]);', 'ERR', '}', '}',
             '{', 'PyObject **numbertab = MS->T + 0;', 'int8_t const cint_constants_1[] = {7};', 'for (int i = 0; i < 1; i++) {', 'numbertab[i] = PyLong_FromLong(cint_constants_1[i - 0]);', 'ERR', '}', '}']
    slots, where, problems = run_number_table(lines, ['#define A T[0]', '#define B T[1]'], 'T')
    r.positive_control(any('twice' in p for p in problems) and slots.get(1) is None, 'an int block written over the float slots')
    return r


# =====================================================================================================
# C09-FOLD: decision tables of Optimize.ConstantFolding
# =====================================================================================================

class SymInt(int):
    """A symbolic integer >= 2 (monomial over named factors): products stay symbolic, everything else is refused.  Used to decide how two
    constant sequence multipliers are combined without choosing numbers."""

    def __new__(cls, factors):
        o = int.__new__(cls, 2)
        o.factors = tuple(sorted(factors))
        return o

    def __mul__(self, other):
        if isinstance(other, SymInt):
            return SymInt(self.factors + other.factors)
        raise Unfoldable('symbolic multiplier combined with %r' % (other,))
    __rmul__ = __mul__

    def _no(self, *a):
        raise Unfoldable('operation on a symbolic multiplier that is not a product')
    __add__ = __radd__ = __sub__ = __rsub__ = __floordiv__ = __mod__ = __pow__ = __lshift__ = __neg__ = _no

    def __eq__(self, other):
        return isinstance(other, SymInt) and other.factors == self.factors

    def __ne__(self, other):
        return not self.__eq__(other)

    def __hash__(self):
        return hash(self.factors)

    def __le__(self, other):
        if type(other) is int and other <= 1:
            return False
        raise Unfoldable('ordering of a symbolic multiplier against %r' % (other,))

    def __repr__(self):
        return '*'.join(self.factors)
    __str__ = __repr__


class FoldModel:
    def __init__(self, ctx):
        self.ctx, self.ix = ctx, ctx.index
        self.cf = self.ix.cls('Optimize', 'ConstantFolding')
        self.en = self.ix.mod('ExprNodes')
        self.ctype = Inst(None, dict(is_numeric=True, is_pyobject=False, is_int=True, signed=1, is_complex=False, is_pybool_type=False), label='c-long', flags_default=False)
        self.ftype = Inst(None, dict(is_numeric=True, is_pyobject=False, is_int=False, is_float=True, signed=1, is_complex=False, is_pybool_type=False), label='c-double', flags_default=False)

        def construct(folder, cref, args, kwargs):
            ci = folder.classinfo(cref)
            if ci.module is not self.en:
                return NotImplemented
            init = folder._class_member(ci, '__init__')
            if init is not None and init[0] == 'method' and init[1].name == ci.name and ci.name == 'BoolNode':
                inst = Inst(ci, {}, label='new ' + ci.name)
                Closure(folder, init[2], Env({}, None, init[1].module.rel))(inst, *args, **kwargs)
                return inst
            attrs = dict(kwargs)
            if args:
                attrs.setdefault('pos', args[0])
            if 'type' not in attrs:
                attrs['type'] = self.ftype if ci.name == 'FloatNode' else self.ctype
            return Inst(ci, attrs, label='new ' + ci.name)
        self.f = ObjFolder(ctx, construct=construct)
        # type arithmetic is outside this rule: every C numeric type is one abstract type
        order = lambda t: 2 if t is self.ftype else 0 if t is self.btype else 1
        self.f._globals[('Cython/Compiler/PyrexTypes.py', 'widest_numeric_type')] = lambda a, b: a if order(a) >= order(b) else b
        self.f._globals[('Cython/Compiler/PyrexTypes.py', 'c_int_type')] = self.ctype
        self.f._globals[('Cython/Compiler/PyrexTypes.py', 'c_py_ssize_t_type')] = self.ctype
        self.btype = Inst(None, dict(is_numeric=True, is_pyobject=False, is_int=True, signed=1, is_complex=False, is_pybool_type=False), label='c-bint', flags_default=False)
        self.f._globals[('Cython/Compiler/PyrexTypes.py', 'c_bint_type')] = self.btype

    def literal(self, v):
        cn = 'BoolNode' if isinstance(v, bool) else 'IntNode' if isinstance(v, int) else 'FloatNode'
        a = dict(value=v if isinstance(v, bool) else repr(v) if isinstance(v, float) else str(v), constant_result=v, is_literal=True,
                 type=self.ftype if isinstance(v, float) else self.btype if isinstance(v, bool) else self.ctype, pos=('<src>', 1, 0))
        if cn == 'IntNode':
            a.update(unsigned='', longness='')
        return Inst(self.en.classes[cn], a, label=repr(v))

    def transform(self):
        me = Inst(self.cf, dict(reevaluate=False), label='ConstantFolding')
        me.attrs['_calculate_const'] = lambda node: None
        me.attrs['visitchildren'] = lambda node, *a, **k: None
        return me

    def node(self, cname, **attrs):
        attrs.setdefault('pos', ('<src>', 1, 0))
        return Inst(self.en.classes[cname], attrs, label=cname)

    def value_of(self, n):
        """(python value denoted by a literal node, constant_result or NotImplemented) or None if n is not a literal node"""
        if not isinstance(n, Inst) or n.cls is None:
            return None
        names = [k.name for k in self.ix.mro(n.cls)]
        cr = n.attrs.get('constant_result', NotImplemented)
        v = n.attrs.get('value')
        if 'BoolNode' in names:
            return v, cr
        if 'IntNode' in names:
            try:
                return py_value(v), cr
            except (ValueError, TypeError):
                return ('unreadable', v), cr
        if 'FloatNode' in names:
            try:
                return float(v), cr
            except (ValueError, TypeError):
                return ('unreadable', v), cr
        return None


def _same_const(a, b):
    if type(a) is not type(b):
        return False
    if isinstance(a, float):
        return _same_float(a, b)
    return a == b


_PY_UNOPS = {'!': lambda v: not v, '-': lambda v: -v, '+': lambda v: +v, '~': lambda v: ~v}
_PY_BINOPS = {'+': lambda a, b: a + b, '-': lambda a, b: a - b, '*': lambda a, b: a * b, '/': lambda a, b: a / b, '//': lambda a, b: a // b,
              '%': lambda a, b: a % b, '**': lambda a, b: a ** b, '<<': lambda a, b: a << b, '>>': lambda a, b: a >> b, '&': lambda a, b: a & b,
              '|': lambda a, b: a | b, '^': lambda a, b: a ^ b}
_UNOP_CLASS = {'!': 'NotNode', '-': 'UnaryMinusNode', '+': 'UnaryPlusNode', '~': 'TildeNode'}
_VALUES = [True, False, 0, 3, -2, 1.5, -0.0]


def rule_fold(ctx):
    r = Rule('C09-FOLD', 'Optimize.ConstantFolding folded on literal operands of every kind (bool / int / float, both signs, zero) for every unary and binary operator, on '
             'and/or with constant left operands, on the operator-negation table and on nested constant sequence multipliers: whenever a handler replaces an expression by a '
             'literal node, its class, text and constant_result denote the value and type CPython computes', floor=370)
    fm = FoldModel(ctx)
    f = fm.f
    bad = {}
    line = {n: fm.cf.methods[n].lineno for n in fm.cf.methods}

    def note(key, meth, msg):
        bad.setdefault(key, (line.get(meth, 0), msg))

    def judge(key, meth, src, want, got_node, operands):
        """a handler result: either not a (new) literal -> no claim, or a literal that must denote `want`."""
        if any(got_node is o for o in operands):
            # an operand returned as the result: its value must be the expected one (e.g. +x -> x)
            pass
        gv = fm.value_of(got_node)
        if gv is None:
            return
        val, cr = gv
        cname = got_node.cls.name
        if not _same_const(val, want):
            note(key, meth, 'ConstantFolding.%s folds `%s` to a %s with the text %r (value %r), CPython computes %r' % (meth, src, cname, got_node.attrs.get('value'), val, want))
        elif cr is not NotImplemented and not _same_const(cr, want):
            note(key + ':constant_result', meth, 'ConstantFolding.%s folds `%s` to a %s whose text is right but whose constant_result is %r instead of %r: later folding, '
                 'compile-time values and pooling keys use the wrong number' % (meth, src, cname, cr, want))

    # ---- (1) unary operators
    for op, pyop in _PY_UNOPS.items():
        for v in _VALUES:
            try:
                want = pyop(v)
            except TypeError:
                continue
            key = 'unop:%s:%s' % (op, type(v).__name__)
            operand = fm.literal(v)
            node = fm.node(_UNOP_CLASS[op], operator=op, operand=operand, constant_result=want)
            r.inst('%s:%r' % (key, v), sample='%s%r -> %r' % (op if op != '!' else 'not ', v, want))
            try:
                got = f.inst_attr(fm.transform(), 'visit_UnopNode')(node)
            except AnalysisError:
                raise
            except Exception as e:
                note(key + ':crash', 'visit_UnopNode', 'ConstantFolding.visit_UnopNode raises %s: %s for `%s%r`' % (type(e).__name__, e, op, v))
                continue
            if got is operand and not _same_const(v, want) and not (v == want and type(v) in (int, bool) and type(want) in (int, bool) and op == '+' and not isinstance(v, bool)):
                note(key, 'visit_UnopNode', 'ConstantFolding.visit_UnopNode replaces `%s%r` by its operand, CPython computes %r' % (op, v, want))
            elif got is not operand:
                judge(key, 'visit_UnopNode', '%s%r' % (op if op != '!' else 'not ', v), want, got, [])
    # ---- (2) binary operators
    for op, pyop in _PY_BINOPS.items():
        for a, b in itertools.product(_VALUES, repeat=2):
            try:
                want = pyop(a, b)
            except (TypeError, ZeroDivisionError, ValueError, OverflowError):
                continue
            if isinstance(want, complex):
                continue
            key = 'binop:%s:%s:%s' % (op, type(a).__name__, type(b).__name__)
            o1, o2 = fm.literal(a), fm.literal(b)
            node = fm.node('NumBinopNode', operator=op, operand1=o1, operand2=o2, constant_result=want)
            r.inst('%s:%r:%r' % (key, a, b), sample='%r %s %r -> %r' % (a, op, b, want))
            try:
                got = f.inst_attr(fm.transform(), 'visit_BinopNode')(node)
            except AnalysisError:
                raise
            except Exception as e:
                note(key + ':crash', 'visit_BinopNode', 'ConstantFolding.visit_BinopNode raises %s: %s for `%r %s %r` (CPython: %r)' % (type(e).__name__, e, a, op, b, want))
                continue
            if got is not node:
                judge(key, 'visit_BinopNode', '%r %s %r' % (a, op, b), want, got, [o1, o2])
    # ---- (2a) C char constants: arithmetic on char operands is int arithmetic (integer promotions), never a char literal again
    for op, pyop in _PY_BINOPS.items():
        for other in ('char', 'int'):
            a, b = 97, 98 if other == 'char' else 3
            try:
                want = pyop(a, b)
            except (TypeError, ZeroDivisionError, ValueError, OverflowError):
                continue
            if not isinstance(want, int):
                continue
            o1 = fm.node('CharNode', value='a', constant_result=97, is_literal=True, type=fm.ctype)
            o2 = fm.node('CharNode', value='b', constant_result=98, is_literal=True, type=fm.ctype) if other == 'char' else fm.literal(3)
            node = fm.node('NumBinopNode', operator=op, operand1=o1, operand2=o2, constant_result=want)
            r.inst('char:%s:%s' % (op, other), sample="c'a' %s %s -> %r" % (op, "c'b'" if other == 'char' else '3', want))
            try:
                got = f.inst_attr(fm.transform(), 'visit_BinopNode')(node)
            except AnalysisError:
                raise
            except Exception as e:
                note('char:crash', 'visit_BinopNode', "ConstantFolding.visit_BinopNode raises %s: %s for `c'a' %s ...`" % (type(e).__name__, e, op))
                continue
            if got is node or not isinstance(got, Inst) or got.cls is None:
                continue
            if got.cls.name == 'CharNode':
                note('char:class', 'visit_BinopNode', "ConstantFolding.visit_BinopNode folds `c'a' %s %s` (C value %d) to a CharNode with the text %r: C computes the expression in int, and a "
                     "char literal cannot hold the text of a number" % (op, "c'b'" if other == 'char' else '3', want, got.attrs.get('value')))
            else:
                judge('char:%s' % op, 'visit_BinopNode', "c'a' %s %s" % (op, "c'b'" if other == 'char' else '3'), want, got, [o1, o2])
    # ---- (2b) C suffixes: the folded literal is never narrower than an operand (usual arithmetic conversions)
    for l1, l2 in itertools.product(('', 'L', 'LL'), repeat=2):
        o1, o2 = fm.literal(3), fm.literal(5)
        o1.attrs['longness'], o2.attrs['longness'] = l1, l2
        node = fm.node('NumBinopNode', operator='+', operand1=o1, operand2=o2, constant_result=8)
        r.inst('longness:%s:%s' % (l1 or '-', l2 or '-'), sample='3%s + 5%s' % (l1, l2))
        try:
            got = f.inst_attr(fm.transform(), 'visit_BinopNode')(node)
        except AnalysisError:
            raise
        except Exception as e:
            note('longness:crash', 'visit_BinopNode', 'ConstantFolding.visit_BinopNode raises %s: %s for `3%s + 5%s`' % (type(e).__name__, e, l1, l2))
            continue
        if got is not node and isinstance(got, Inst) and got.cls is not None and got.cls.name == 'IntNode':
            gl = got.attrs.get('longness', '')
            if not isinstance(gl, str) or len(gl) < max(len(l1), len(l2)):
                note('longness', 'visit_BinopNode', 'ConstantFolding.visit_BinopNode folds `3%s + 5%s` to an integer literal with the suffix %r, narrower than an operand: C evaluates the '
                     'original expression in the wider type, the folded constant is typed (and possibly truncated) as the narrower one' % (l1, l2, gl))
    # ---- (3) and / or with a constant left operand
    for op in ('and', 'or'):
        for v in (0, 1, 0.0, 2.5, True, False):
            o1, o2 = fm.literal(v), fm.node('NameNode', name='x', constant_result=f.module_attr(EXN, 'not_a_constant'))
            node = fm.node('BoolBinopNode', operator=op, operand1=o1, operand2=o2)
            want_second = bool(v) if op == 'and' else not bool(v)
            r.inst('boolop:%s:%r' % (op, v), sample='%r %s x -> %s' % (v, op, 'x' if want_second else repr(v)))
            try:
                got = f.inst_attr(fm.transform(), 'visit_BoolBinopNode')(node)
            except AnalysisError:
                raise
            except Exception as e:
                note('boolop:crash', 'visit_BoolBinopNode', 'ConstantFolding.visit_BoolBinopNode raises %s: %s' % (type(e).__name__, e))
                continue
            if got is node:
                continue
            if got is not (o2 if want_second else o1):
                note('boolop:%s:%s' % (op, 'true' if v else 'false'), 'visit_BoolBinopNode',
                     'ConstantFolding.visit_BoolBinopNode replaces `%r %s x` by %s; CPython evaluates it to %s' % (v, op, 'the left operand' if got is o1 else 'x' if got is o2 else repr(got), 'x' if want_second else repr(v)))
    # ---- (4) negation table of comparison operators
    neg = f._class_member(fm.cf, '_negate_operator')
    table = getattr(neg[1], '__self__', None) if neg and neg[0] == 'value' else None
    if not isinstance(table, dict):
        raise AnalysisError('ConstantFolding._negate_operator is not `{...}.get` any more')
    ref = {'in': 'not_in', 'not_in': 'in', 'is': 'is_not', 'is_not': 'is', '==': '!=', '!=': '==', '<': '>=', '>=': '<', '>': '<=', '<=': '>'}
    for k, v in sorted(table.items()):
        r.inst('negate:%s' % k, sample='not (a %s b) -> a %s b' % (k, v))
        if ref.get(k) != v:
            note('negate:%s' % k, '_handle_NotNode', 'ConstantFolding._negate_operator rewrites `not (a %s b)` to `a %s b`; the negation is `a %s b`' % (k.replace('_', ' '), str(v).replace('_', ' '), ref.get(k, '?').replace('_', ' ')))
    # ---- (5) nested constant multipliers of a sequence
    m, k = SymInt(['m']), SymInt(['k'])
    seq = fm.node('TupleNode', args=[fm.literal(1)], mult_factor=fm.literal(3), is_sequence_constructor=True)
    seq.attrs['mult_factor'].attrs['constant_result'] = m
    factor = fm.literal(3)
    factor.attrs['constant_result'] = k
    node = fm.node('MulNode', operator='*', operand1=seq, operand2=factor)
    r.inst('seq-multiplier', sample='(1,) * m * k')
    try:
        got = f.inst_attr(fm.transform(), '_calculate_constant_seq')(node, seq, factor)
        mf = got.attrs.get('mult_factor') if isinstance(got, Inst) else None
        if got is seq and isinstance(mf, Inst):
            cr = mf.attrs.get('constant_result')
            if cr != SymInt(['m', 'k']):
                note('seq-multiplier', '_calculate_constant_seq', 'ConstantFolding._calculate_constant_seq combines the multipliers of `(x,) * m * k` to %r instead of m*k' % (cr,))
    except Unfoldable as e:
        if 'symbolic multiplier' in str(e):
            note('seq-multiplier', '_calculate_constant_seq', 'ConstantFolding._calculate_constant_seq does not combine the multipliers of `(x,) * m * k` by multiplication (%s)' % e)
        else:
            raise
    for key, (ln, msg) in sorted(bad.items()):
        r.violate('Optimize.ConstantFolding:' + key, OPT, ln, msg)
    r.positive_control(not _same_const(True, 1) and not _same_const(0.0, -0.0) and _same_const(2, 2) and SymInt(['a']) * SymInt(['b']) == SymInt(['b', 'a']),
                       'value comparison distinguishes bool/int and the sign of zero')
    return r


# =====================================================================================================
# C09-KEYCOV: the pooling keys separate what CPython separates
# =====================================================================================================

def rule_keycov(ctx):
    r = Rule('C09-KEYCOV', 'ExprNodes.make_dedup_key and the key expressions at its call sites folded on pairs of constants that CPython distinguishes (type, sign of zero, '
             'element order, slice step, constant multiplier, container kind): the two keys differ, so the constants are never pooled into one object', floor=18)
    ix = ctx.index
    en = ix.mod('ExprNodes')
    f = ObjFolder(ctx)
    mk = f.function(EXN, 'make_dedup_key')
    pyobj = f.module_attr('Cython/Compiler/PyrexTypes.py', 'py_object_type')
    tuple_t = Inst(None, {}, label='tuple_type', flags_default=False)
    frozen_t = Inst(None, {'is_pyfrozenset_type': True}, label='frozenset_type', flags_default=False)
    slice_t = Inst(None, {}, label='slice_type', flags_default=False)
    f._globals[(EXN, 'frozenset_type')] = frozen_t

    def const(v, typ=None):
        cn = 'NoneNode' if v is None else 'BoolNode' if isinstance(v, bool) else 'IntNode' if isinstance(v, int) else 'FloatNode'
        return Inst(en.classes[cn], dict(constant_result=v, type=typ if typ is not None else pyobj, is_literal=True, value=repr(v)), label=repr(v))

    def tup(items, mult=None):
        return Inst(en.classes['TupleNode'], dict(args=list(items), mult_factor=const(mult) if mult is not None else None, is_literal=True, type=tuple_t, constant_result=None), label='tuple')

    def slc(a, b, c):
        return Inst(en.classes['SliceNode'], dict(start=const(a), stop=const(b), step=const(c), is_literal=True, type=slice_t), label='slice')

    class _Captured(Exception):
        def __init__(self, key):
            self.key = key

    def site_key(node, meth):
        """the key under which the site method of node's class pools the constant: the method is folded with a `code` stand-in whose
        get_py_const(prefix, dedup_key=...) hands the key back."""
        if ix.find_method(node.cls, meth) is None:
            raise AnalysisError('%s.%s vanished' % (node.cls.name, meth))

        def get_py_const(prefix, dedup_key=None):
            raise _Captured(dedup_key)
        code = Inst(None, dict(get_py_const=get_py_const), label='code')
        try:
            f.inst_attr(node, meth)(code)
        except _Captured as c:
            return c.key
        raise AnalysisError('%s.%s no longer requests a pooled constant through code.get_py_const()' % (node.cls.name, meth))

    fsa = lambda items: Inst(en.classes['FrozenSetFromArrayNode'], dict(args=list(items), is_literal=True, type=frozen_t), label='frozenset')
    fs = lambda arg: Inst(en.classes['FrozenSetNode'], dict(arg=arg, is_literal=True, type=frozen_t), label='frozenset()')
    ustr = lambda t: Inst(en.classes['UnicodeNode'], dict(value=t, constant_result=t, is_literal=True, type=pyobj), label=repr(t))
    pairs = [
        ('frozenset-string', "frozenset('ab') / frozenset('cd')", lambda: site_key(fs(ustr('ab')), '_create_shared_frozenset_object'), lambda: site_key(fs(ustr('cd')), '_create_shared_frozenset_object')),
        ('frozenset-empty', "frozenset() / frozenset('a')", lambda: site_key(fs(None), '_create_shared_frozenset_object'), lambda: site_key(fs(ustr('a')), '_create_shared_frozenset_object')),
        ('frozenset-arg', 'frozenset((1, 2)) / frozenset((1, 3))', lambda: site_key(fs(tup([const(1), const(2)])), '_create_shared_frozenset_object'),
         lambda: site_key(fs(tup([const(1), const(3)])), '_create_shared_frozenset_object')),
        ('float-sign', '(0.0, 1) / (-0.0, 1)', lambda: site_key(tup([const(0.0), const(1)]), 'generate_operation_code'), lambda: site_key(tup([const(-0.0), const(1)]), 'generate_operation_code')),
        ('int-float', '(1, 2) / (1.0, 2)', lambda: site_key(tup([const(1), const(2)]), 'generate_operation_code'), lambda: site_key(tup([const(1.0), const(2)]), 'generate_operation_code')),
        ('int-bool', '(1,) / (True,)', lambda: site_key(tup([const(1)]), 'generate_operation_code'), lambda: site_key(tup([const(True)]), 'generate_operation_code')),
        ('order', '(1, 2) / (2, 1)', lambda: site_key(tup([const(1), const(2)]), 'generate_operation_code'), lambda: site_key(tup([const(2), const(1)]), 'generate_operation_code')),
        ('length', '(1,) / (1, 1)', lambda: site_key(tup([const(1)]), 'generate_operation_code'), lambda: site_key(tup([const(1), const(1)]), 'generate_operation_code')),
        ('none', '(None,) / (0,)', lambda: site_key(tup([const(None)]), 'generate_operation_code'), lambda: site_key(tup([const(0)]), 'generate_operation_code')),
        ('multiplier', '(1, 2) * 2 / (1, 2) * 3', lambda: site_key(tup([const(1), const(2)], 2), 'generate_operation_code'), lambda: site_key(tup([const(1), const(2)], 3), 'generate_operation_code')),
        ('multiplier-none', '(1, 2) / (1, 2) * 2', lambda: site_key(tup([const(1), const(2)]), 'generate_operation_code'), lambda: site_key(tup([const(1), const(2)], 2), 'generate_operation_code')),
        ('nested-multiplier', '((1,) * 2, 0) / ((1,) * 3, 0)', lambda: site_key(tup([tup([const(1)], 2), const(0)]), 'generate_operation_code'),
         lambda: site_key(tup([tup([const(1)], 3), const(0)]), 'generate_operation_code')),
        ('nested-order', '((1, 2), 0) / ((2, 1), 0)', lambda: site_key(tup([tup([const(1), const(2)]), const(0)]), 'generate_operation_code'),
         lambda: site_key(tup([tup([const(2), const(1)]), const(0)]), 'generate_operation_code')),
        ('slice-step', 'x[1:2:3] / x[1:2:4]', lambda: site_key(slc(1, 2, 3), 'generate_result_code'), lambda: site_key(slc(1, 2, 4), 'generate_result_code')),
        ('slice-stop', 'x[1:2:3] / x[1:5:3]', lambda: site_key(slc(1, 2, 3), 'generate_result_code'), lambda: site_key(slc(1, 5, 3), 'generate_result_code')),
        ('slice-start', 'x[1:2:3] / x[0:2:3]', lambda: site_key(slc(1, 2, 3), 'generate_result_code'), lambda: site_key(slc(0, 2, 3), 'generate_result_code')),
        ('slice-none', 'x[None:2:None] / x[0:2:None]', lambda: site_key(slc(None, 2, None), 'generate_result_code'), lambda: site_key(slc(0, 2, None), 'generate_result_code')),
        ('nested-slice', '(slice(1, 2, 3),) / (slice(1, 2, 4),)', lambda: site_key(tup([slc(1, 2, 3)]), 'generate_operation_code'), lambda: site_key(tup([slc(1, 2, 4)]), 'generate_operation_code')),
        ('frozenset-order', 'frozenset((1.0, 1)) / frozenset((1, 1.0))', lambda: site_key(fsa([const(1.0), const(1)]), '_create_shared_frozenset_object'),
         lambda: site_key(fsa([const(1), const(1.0)]), '_create_shared_frozenset_object')),
        ('container-kind', '(1, 2) / frozenset((1, 2))', lambda: site_key(tup([const(1), const(2)]), 'generate_operation_code'),
         lambda: site_key(fsa([const(1), const(2)]), '_create_shared_frozenset_object')),
        ('c-type', 'typed (1,) as C long / as Python object', lambda: site_key(tup([const(1, Inst(None, {}, label='c_long', flags_default=False))]), 'generate_operation_code'),
         lambda: site_key(tup([const(1)]), 'generate_operation_code')),
    ]
    mline = tables.find_function(ctx.parse(EXN), 'make_dedup_key').lineno
    for name, what, ka, kb in pairs:
        r.inst('pair:' + name, sample=what)
        try:
            a, b = ka(), kb()
            hash(a), hash(b)
        except AnalysisError:
            raise
        except Exception as e:
            r.violate('ExprNodes.make_dedup_key:%s:crash' % name, EXN, mline, 'computing the pooling keys of %s raises %s: %s' % (what, type(e).__name__, e))
            continue
        if a is None or b is None:
            continue        # not pooled at all
        if a == b:
            r.violate('ExprNodes.make_dedup_key:%s' % name, EXN, mline,
                      'the constants %s get the same pooling key %r: the second one is replaced by the object created for the first' % (what, a))
    same = mk(tuple_t, [const(1), const(2)]) == mk(tuple_t, [const(1), const(2)])
    r.positive_control(same, 'equal constants do get equal keys (the comparison is meaningful)')
    return r


# =====================================================================================================
# C09-CTV: compile-time values computed by the node classes (calculate_constant_result) and the operator tables behind them
# =====================================================================================================

import operator as _op
from . import pC10 as _pC10
_pC10.STDLIB.setdefault('operator', {})
for _n in ('lt', 'le', 'eq', 'ne', 'ge', 'gt', 'is_', 'is_not', 'add', 'and_', 'truediv', 'floordiv', 'lshift', 'mod', 'mul', 'or_', 'pow', 'rshift', 'sub', 'xor',
           'matmul', 'not_', 'inv', 'neg', 'pos', 'itemgetter', 'contains'):
    _pC10.STDLIB['operator'].setdefault(_n, getattr(_op, _n))

_BIN_SRC = {'<': '<', '<=': '<=', '==': '==', '!=': '!=', '>=': '>=', '>': '>', 'is': 'is', 'is_not': 'is not', '+': '+', '&': '&', '/': '/', '//': '//', '<<': '<<',
            '%': '%', '*': '*', '|': '|', '**': '**', '>>': '>>', '-': '-', '^': '^', 'in': 'in', 'not_in': 'not in'}
_UN_SRC = {'not': 'not ', '~': '~', '-': '-', '+': '+'}


def _py(src, **names):
    """value of a checker-generated Python expression over the given operand values (the reference reading of the operator)"""
    return eval(compile(ast.parse(src, mode='eval'), '<reference>', 'eval'), {'__builtins__': {}}, names)


def rule_ctv(ctx):
    r = Rule('C09-CTV', 'compile-time values: the operator tables ExprNodes.compile_time_binary_operators / compile_time_unary_operators and the calculate_constant_result methods '
             'of tuple, list, set, dict, slice, index, conditional, and/or, not, unary and binary nodes folded on constant operands give the value CPython computes for the '
             'same expression', floor=60)
    ix = ctx.index
    en = ix.mod('ExprNodes')
    f = ObjFolder(ctx)
    bad = {}
    samples = [(13, 5), (7, 2), (6, 3), (-9, 4), (5, 13)]
    bt = f.module_attr(EXN, 'compile_time_binary_operators')
    ut = f.module_attr(EXN, 'compile_time_unary_operators')
    if not isinstance(bt, dict) or not isinstance(ut, dict) or len(bt) < 15:
        raise AnalysisError('ExprNodes.compile_time_binary_operators / compile_time_unary_operators are not literal dicts any more')
    tline = en.bindings['compile_time_binary_operators'].lineno if hasattr(en.bindings.get('compile_time_binary_operators'), 'lineno') else 0
    for op, fn in sorted(bt.items()):
        r.inst('binop-table:%s' % op, sample='%r -> %r' % (op, getattr(fn, '__name__', fn)))
        if op == '@' or op not in _BIN_SRC:
            continue
        try:
            if op in ('in', 'not_in'):
                got = [fn(a, (a, 1)) for a, b in samples] + [fn(a, (b, 0)) for a, b in samples]
                want = [_py('a %s s' % _BIN_SRC[op], a=a, s=(a, 1)) for a, b in samples] + [_py('a %s s' % _BIN_SRC[op], a=a, s=(b, 0)) for a, b in samples]
            else:
                got = [fn(a, b) for a, b in samples if not (op in ('<<', '>>', '**') and b < 0)]
                want = [_py('a %s b' % _BIN_SRC[op], a=a, b=b) for a, b in samples if not (op in ('<<', '>>', '**') and b < 0)]
        except AnalysisError:
            raise
        except Exception as e:
            got, want = e, None
        if got != want:
            bad.setdefault('binop-table:%s' % op, (tline, 'ExprNodes.compile_time_binary_operators[%r] is %r: on the operands %s it gives %r, the Python operator gives %r - constant '
                                                   'expressions with this operator are folded to wrong values' % (op, getattr(fn, '__name__', fn), samples, got, want)))
    for op, fn in sorted(ut.items()):
        r.inst('unop-table:%s' % op, sample='%r -> %r' % (op, getattr(fn, '__name__', fn)))
        if op not in _UN_SRC:
            continue
        vals = [5, -3, 0]
        try:
            got, want = [fn(v) for v in vals], [_py('%sv' % _UN_SRC[op], v=v) for v in vals]
        except AnalysisError:
            raise
        except Exception as e:
            got, want = e, None
        if got != want:
            bad.setdefault('unop-table:%s' % op, (tline, 'ExprNodes.compile_time_unary_operators[%r] is %r: on %s it gives %r, the Python operator gives %r' % (op, getattr(fn, '__name__', fn), vals, got, want)))

    def K(v):
        return Inst(en.classes['IntNode'], dict(constant_result=v, value=repr(v)), label=repr(v))

    def calc(cname, want, src, **attrs):
        node = Inst(en.classes[cname], dict(attrs), label=cname)
        key = 'node:%s' % cname
        r.inst('%s:%s' % (key, src), sample='%s -> %r' % (src, want))
        try:
            f.inst_attr(node, 'calculate_constant_result')()
            got = node.attrs.get('constant_result', 'not set')
        except AnalysisError:
            raise
        except Exception as e:
            got = e
        same = type(got) is type(want) and got == want and (not isinstance(want, (tuple, list)) or [type(x) for x in got] == [type(x) for x in want]) and \
            (not isinstance(want, dict) or list(got.items()) == list(want.items()))
        if not same:
            bad.setdefault(key, (en.classes[cname].methods['calculate_constant_result'].lineno if 'calculate_constant_result' in en.classes[cname].methods else 0,
                                 '%s.calculate_constant_result gives %r for `%s`; CPython computes %r' % (cname, got, src, want)))
    calc('TupleNode', (1, 2, 3), '(1, 2, 3)', args=[K(1), K(2), K(3)], mult_factor=None)
    calc('ListNode', [1, 2, 3], '[1, 2, 3]', args=[K(1), K(2), K(3)], mult_factor=None)
    calc('SetNode', {1, 2}, '{1, 2}', args=[K(1), K(2)])
    item = lambda k, v: Inst(en.classes['DictItemNode'], dict(key=K(k), value=K(v)), label='item')
    i1, i2 = item(1, 10), item(2, 20)
    for it in (i1, i2):
        f.inst_attr(it, 'calculate_constant_result')()
    calc('DictNode', {1: 10, 2: 20}, '{1: 10, 2: 20}', key_value_pairs=[i1, i2])
    calc('DictItemNode', (1, 10), '1: 10', key=K(1), value=K(10))
    calc('SliceNode', slice(1, 2, 3), 'slice(1, 2, 3)', start=K(1), stop=K(2), step=K(3))
    calc('IndexNode', 20, '(10, 20, 30)[1]', base=K((10, 20, 30)), index=K(1))
    for c, want in ((1, 10), (0, 20)):
        calc('CondExprNode', want, '10 if %d else 20' % c, condition=K(c), true_val=K(10), false_val=K(20))
    for op in ('and', 'or'):
        for a, b in ((0, 5), (3, 5), (3, 0)):
            calc('BoolBinopNode', _py('a %s b' % op, a=a, b=b), '%d %s %d' % (a, op, b), operator=op, operand1=K(a), operand2=K(b))
    for v in (0, 7):
        calc('NotNode', not v, 'not %d' % v, operand=K(v), operator='!')
    for op in sorted(ut):
        if op in _UN_SRC and op != 'not':
            calc('UnopNode', _py('%sv' % _UN_SRC[op], v=6), '%s6' % op, operator=op, operand=K(6))
    for op in ('+', '-', '*', '//', '%', '<<', '&', '|', '^', '**'):
        calc('NumBinopNode', _py('a %s b' % op, a=13, b=5), '13 %s 5' % op, operator=op, operand1=K(13), operand2=K(5))
    for op in ('<', '==', '!=', '>=', 'in', 'not_in', 'is_not'):
        b = (1, 13) if op in ('in', 'not_in') else 5
        calc('PrimaryCmpNode', _py('a %s b' % _BIN_SRC[op], a=13, b=b), '13 %s %r' % (_BIN_SRC[op], b), operator=op, operand1=K(13), operand2=K(b), cascade=None)
    for k, (ln, msg) in sorted(bad.items()):
        r.violate('ExprNodes:' + k, EXN, ln, msg)
    r.positive_control(_py('a - b', a=7, b=2) == 5 and _op.add(7, 2) != _py('a - b', a=7, b=2), 'reference reading of operators')
    return r
