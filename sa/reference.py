"""Frozen reference tables taken from language/format specifications (trusted base), each with its source."""

# CPython InternalDocs/locations.md ("Location table", Python 3.11+), as decoded by code.co_positions():
#   every entry starts with a byte whose bit 7 is set:  1 CCCC LLL   (C = code, L = length-1 of the instruction run)
#   all following bytes of the entry have bit 7 clear
#   code 0-9   short form : 2 bytes total; start_column = code*8 + ((byte2 >> 4) & 7); end_column = start_column + (byte2 & 15); same line
#   code 10-12 one-line   : 3 bytes total; line delta = code - 10; byte2 = start column; byte3 = end column
#   code 13    no column  : svarint line delta only
#   code 14    long form  : svarint(line delta) varint(end_line - line) varint(start_column + 1) varint(end_column + 1)
#   code 15    no location
#   varint : 6 bits per byte, least significant chunk first, bit 6 set on every chunk except the last
#   svarint: (value << 1) | sign for the unsigned encoding
#   line deltas are relative to the START line of the previous entry
LOCATION_TABLE = {
    'short': {'codes': (0, 9), 'bytes': 2},
    'oneline': {'codes': (10, 12), 'bytes': 3},
    'long': {'codes': (14, 14), 'varints': ['svarint(line_delta)', 'end_line - start_line', 'start_column + 1', 'end_column + 1']},
    'varint_chunk_bits': 6,
}

# Python language reference 6.17 "Operator precedence" (lowest to highest binding), binary/unary operators that can
# occur in default-value expressions.  Names as Cython's nodes spell them ('not_in', 'is_not').
# Associativity: all binary operators group left to right, except ** (right to left); comparisons chain (a < b < c is
# not (a < b) < c), so neither operand of a comparison may be an unparenthesised comparison.
PY_BINOP_LEVELS = [
    ['or'], ['and'],
    # 'not' (unary) sits here
    ['in', 'not_in', 'is', 'is_not', '<', '<=', '>', '>=', '!=', '=='],
    ['|'], ['^'], ['&'], ['<<', '>>'], ['+', '-'], ['*', '@', '/', '//', '%'],
    # unary + - ~ sit here
    ['**'],
]
PY_UNOP_LEVEL = {'not': ('and', 'in'), '+': ('*', '**'), '-': ('*', '**'), '~': ('*', '**')}   # strictly between these binary levels
PY_RIGHT_ASSOC = {'**'}
PY_NON_ASSOC = {'in', 'not_in', 'is', 'is_not', '<', '<=', '>', '>=', '!=', '=='}
