"""E3 — utility-code catalogue.

Re-implements, inside the checker, the *file format* read by Code.UtilityCodeBase.load_utilities_from_file
(section headers, section types, tags) and indexes the C declarations of every section: function prototypes
and definitions with parameter lists, macros (with forwarding information), the #if stack they sit under,
and Tempita template facts.  Nothing is imported from /repo: the section-title and type regexes are read out
of Code.py's source through ast.
"""
import ast, os, re, collections

from ..core import AnalysisError

UTIL_DIR = 'Cython/Utility'
NAME_RE = r'(?:__[Pp]yx_|__PYX_|__Pyx)[\w]*(?:\{\{[^}]*\}\}[\w]*)*'


def split_args(s):
    """Split a C/Python-ish argument string at top-level commas."""
    s = s.strip()
    if s in ('', 'void'):
        return []
    out, cur, depth, i = [], '', 0, 0
    quote = None
    while i < len(s):
        ch = s[i]
        if quote:
            cur += ch
            if ch == '\\' and i + 1 < len(s):
                cur += s[i + 1]
                i += 1
            elif ch == quote:
                quote = None
        elif ch in '"\'':
            quote = ch
            cur += ch
        elif ch in '([{':
            depth += 1
            cur += ch
        elif ch in ')]}':
            depth -= 1
            cur += ch
        elif ch == ',' and depth == 0:
            out.append(cur.strip())
            cur = ''
        else:
            cur += ch
        i += 1
    out.append(cur.strip())
    return out


def match_paren(s, i):
    """s[i] == '(' -> index of matching ')' or -1."""
    depth = 0
    quote = None
    j = i
    while j < len(s):
        ch = s[j]
        if quote:
            if ch == '\\':
                j += 1
            elif ch == quote:
                quote = None
        elif ch in '"\'':
            quote = ch
        elif ch == '(':
            depth += 1
        elif ch == ')':
            depth -= 1
            if depth == 0:
                return j
        j += 1
    return -1


def strip_c_comments(s):
    def blank(m):
        return re.sub(r'[^\n]', ' ', m.group(0))
    s = re.sub(r'/\*.*?\*/', blank, s, flags=re.S)
    s = re.sub(r'//[^\n]*', blank, s)
    return s


class CDecl:
    __slots__ = ('name', 'kind', 'ret', 'params', 'file', 'section', 'line', 'conds', 'body', 'variadic', 'raw')

    def __init__(self, **kw):
        for k in self.__slots__:
            setattr(self, k, kw.get(k))

    @property
    def nparams(self):
        return None if self.params is None else len(self.params)

    def param_names(self):
        out = []
        for p in self.params or []:
            m = re.search(r'([A-Za-z_]\w*)\s*(?:\[[^\]]*\])?\s*$', p)
            out.append(m.group(1) if m and not re.fullmatch(r'(?:const\s+)?(?:unsigned\s+|signed\s+)?(?:int|char|long|short|void|double|float|size_t|Py_ssize_t|Py_UCS4|PyObject\s*\*+)', p.strip()) else None)
        return out

    def param_types(self):
        out = []
        names = self.param_names()
        for p, n in zip(self.params or [], names):
            t = p
            if n:
                t = re.sub(r'\b%s\s*(?:\[[^\]]*\])?\s*$' % re.escape(n), '', p)
                if re.search(r'\[[^\]]*\]\s*$', p):
                    t += '*'
            out.append(' '.join(t.replace('*', ' * ').split()))
        return out

    def __repr__(self):
        return '<%s %s %s(%s) %s:%s>' % (self.kind, self.ret, self.name, ', '.join(self.params or []) if self.params is not None else '-', self.file, self.line)


class Section:
    __slots__ = ('file', 'name', 'type', 'text', 'line', 'tags', 'raw')

    def __init__(self, file, name, type, line):
        self.file, self.name, self.type, self.line = file, name, type, line
        self.text = ''
        self.raw = ''
        self.tags = collections.defaultdict(set)

    @property
    def is_tempita(self):
        return 'tempita' in self.tags.get('substitute', ())

    def __repr__(self):
        return '<section %s::%s.%s>' % (self.file, self.name, self.type)


class Catalogue:
    def __init__(self, ctx):
        self.ctx = ctx
        self._read_loader_format()
        self.files = {}          # basename -> {section name -> {type -> Section}}
        self.sections = []
        self.decls = collections.defaultdict(list)   # C name -> [CDecl]
        base = ctx.path(UTIL_DIR)
        if not os.path.isdir(base):
            raise AnalysisError('utility directory missing')
        for fn in sorted(os.listdir(base)):
            if fn.endswith(('.c', '.cpp', '.h', '.pyx', '.pxd', '.pxi')):
                self._load_file(fn)
        if len(self.files) < 30:
            raise AnalysisError('only %d utility files catalogued' % len(self.files))
        for s in self.sections:
            if s.file.endswith(('.c', '.cpp', '.h')):
                self._index_c(s)

    # -------------------------------------------------------------- loader format (from Code.py source)
    def _read_loader_format(self):
        tree = self.ctx.parse('Cython/Compiler/Code.py')
        pat = None
        for n in ast.walk(tree):
            if isinstance(n, ast.Assign) and any(isinstance(t, ast.Name) and t.id == 'match_section_title' for t in n.targets):
                for c in ast.walk(n.value):
                    if isinstance(c, ast.Constant) and isinstance(c.value, str) and 'proto' in c.value:
                        pat = c.value
        if pat is None:
            raise AnalysisError('Code.UtilityCodeBase.match_section_title not found')
        self.type_re = re.compile(pat)
        self.known_tags = ('requires', 'substitute', 'proto_block', 'init_block', 'feature')

    def _load_file(self, fn):
        rel = UTIL_DIR + '/' + fn
        txt = self.ctx.read(rel)
        c = '#' if fn.endswith(('.pyx', '.pxd', '.pxi', '.py')) else '/'
        title = re.compile(r'^%s{5,30}\s*(?P<name>(?:\w|\.)+)\s*%s{5,30}' % (re.escape(c), re.escape(c)))
        tag = re.compile(r'^%s+\s*@(?P<tag>.+)' % re.escape(c))
        secs = self.files.setdefault(fn, {})
        cur = None
        buf = []
        for i, line in enumerate(txt.split('\n')):
            m = title.match(line)
            if m:
                if cur is not None:
                    cur.raw = '\n'.join(buf)
                name = m.group('name')
                mt = self.type_re.match(name)
                if mt:
                    name, typ = mt.groups()
                else:
                    typ = 'impl'
                cur = Section(fn, name, typ, i + 2)
                # a later section with the same (name, type) overrides the earlier one in the loader
                secs.setdefault(name, {})[typ] = cur
                self.sections.append(cur)
                buf = []
                continue
            mt = tag.match(line)
            if mt and cur is not None:
                tv = mt.group('tag')
                if ':' in tv:
                    tn, _, val = tv.partition(':')
                    cur.tags[tn.rstrip()].add(val.strip())
                buf.append('')
                continue
            buf.append(line)
        if cur is not None:
            cur.raw = '\n'.join(buf)

    # -------------------------------------------------------------- lookups
    def has_section(self, fn, name):
        return name in self.files.get(fn, {})

    def section(self, fn, name, typ=None):
        d = self.files.get(fn, {}).get(name)
        if not d:
            return None
        if typ:
            return d.get(typ)
        return d.get('impl') or d.get('proto') or next(iter(d.values()))

    def section_tags(self, fn, name):
        tags = collections.defaultdict(set)
        for s in self.files.get(fn, {}).get(name, {}).values():
            for k, v in s.tags.items():
                tags[k] |= v
        return tags

    def requires(self, fn, name):
        out = []
        for dep in sorted(self.section_tags(fn, name).get('requires', ())):
            ctxjson = None
            if '{' in dep:
                dep, ctxjson = dep[:dep.index('{')], dep[dep.index('{'):]
            f2, n2 = (dep.rsplit('::', 1) if '::' in dep else (fn, dep))
            out.append((f2, n2, ctxjson))
        return out

    def closure(self, fn, name):
        seen, todo = [], [(fn, name)]
        while todo:
            k = todo.pop()
            if k in seen:
                continue
            seen.append(k)
            for f2, n2, _ in self.requires(*k):
                todo.append((f2, n2))
        return seen

    # -------------------------------------------------------------- C indexing
    FUNC_HEAD = re.compile(r'^(?![ \t]*(?:#|return\b|if\b|else\b|while\b|for\b|switch\b|case\b|goto\b|typedef\b|do\b))'
                           r'([A-Za-z_][^\n;=(){}#]*?[\s\*])(' + NAME_RE + r')\s*\(', re.M)
    MACRO = re.compile(r'^[ \t]*#[ \t]*define[ \t]+(' + NAME_RE + r')(\()?', re.M)
    COND = re.compile(r'^[ \t]*#[ \t]*(if|ifdef|ifndef|elif|else|endif)\b(.*)$')

    def _index_c(self, sec):
        text = strip_c_comments(sec.raw)
        sec.text = text
        # join continuation lines but keep line numbering by padding
        lines = text.split('\n')
        # conditional stack per line
        conds_at = []
        stack = []
        for ln in lines:
            m = self.COND.match(ln)
            if m:
                d, rest = m.group(1), m.group(2).strip()
                if d in ('if', 'ifdef', 'ifndef'):
                    stack.append(['%s %s' % (d, rest)])
                elif d in ('elif', 'else'):
                    if stack:
                        stack[-1].append('%s %s' % (d, rest))
                elif d == 'endif':
                    if stack:
                        stack.pop()
            conds_at.append(tuple('; '.join(x) for x in stack))
        offs = [0]
        for ln in lines:
            offs.append(offs[-1] + len(ln) + 1)

        def line_of(pos):
            import bisect
            return bisect.bisect_right(offs, pos) - 1

        for m in self.FUNC_HEAD.finditer(text):
            head = m.group(1)
            if re.search(r'\b(?:define|return|else|case|goto)\b', head):
                continue
            lp = m.end() - 1
            rp = match_paren(text, lp)
            if rp < 0:
                continue
            tail = text[rp + 1:rp + 200]
            mt = re.match(r'\s*(?:CYTHON_\w+\s*|__attribute__\s*\(\([^)]*\)\)\s*)*(;|\{)', tail)
            if not mt:
                continue
            params = text[lp + 1:rp]
            li = line_of(m.start(2))
            body = None
            if mt.group(1) == '{':
                b0 = rp + 1 + mt.end() - 1
                body = self._brace_body(text, b0)
            pl = split_args(' '.join(params.split()))
            d = CDecl(name=m.group(2), kind='func' if mt.group(1) == '{' else 'proto', ret=' '.join(head.split()),
                      params=pl, file=sec.file, section=sec, line=sec.line + li, conds=conds_at[li] if li < len(conds_at) else (),
                      body=body, variadic=bool(pl and pl[-1] == '...'), raw=None)
            self.decls[d.name].append(d)
        # macros (with continuation lines)
        for m in self.MACRO.finditer(text):
            li = line_of(m.start(1))
            end = m.end()
            params = None
            if m.group(2):
                rp = match_paren(text, m.end() - 1)
                if rp < 0:
                    continue
                params = split_args(text[m.end():rp])
                end = rp + 1
            # body until end of logical line
            j = end
            body = ''
            while True:
                nl = text.find('\n', j)
                if nl < 0:
                    body += text[j:]
                    break
                seg = text[j:nl]
                if seg.rstrip().endswith('\\'):
                    body += seg.rstrip()[:-1] + ' '
                    j = nl + 1
                    continue
                body += seg
                break
            d = CDecl(name=m.group(1), kind='macro', ret=None, params=params, file=sec.file, section=sec,
                      line=sec.line + li, conds=conds_at[li] if li < len(conds_at) else (), body=' '.join(body.split()),
                      variadic=bool(params and params[-1].endswith('...')), raw=None)
            self.decls[d.name].append(d)

    @staticmethod
    def _brace_body(text, b0):
        """text[b0] == '{' -> body text up to the matching '}' (Tempita {{ }} pairs are balanced by themselves)."""
        depth = 0
        j = b0
        quote = None
        while j < len(text):
            ch = text[j]
            if quote:
                if ch == '\\':
                    j += 1
                elif ch == quote:
                    quote = None
            elif ch in '"\'':
                quote = ch
            elif ch == '{':
                depth += 1
            elif ch == '}':
                depth -= 1
                if depth == 0:
                    return text[b0:j + 1]
            j += 1
        return text[b0:]

    # -------------------------------------------------------------- queries
    def lookup(self, cname):
        """All declarations of a C name; Tempita/%-templated names are matched as patterns."""
        if cname in self.decls:
            return self.decls[cname]
        out = []
        for k, v in self.decls.items():
            if '{{' in k:
                pat = re.escape(k)
                pat = re.sub(r'\\\{\\\{.*?\\\}\\\}', r'\\w*', pat)
                if re.fullmatch(pat, cname):
                    out += v
        return out

    def arities(self, cname, _depth=0):
        """Set of possible argument counts for a call to cname (functions, function-like macros; follows
        object-like macro aliases `#define A B`).  None in the set = variadic/unknown."""
        res = set()
        for d in self.lookup(cname):
            if d.kind in ('func', 'proto'):
                res.add(None if d.variadic else d.nparams)
            elif d.kind == 'macro':
                if d.params is None:
                    tgt = d.body.strip()
                    if re.fullmatch(r'[A-Za-z_]\w*', tgt) and tgt != cname and _depth < 4:
                        sub = self.arities(tgt, _depth + 1)
                        res |= sub if sub else {None}
                    else:
                        res.add(None)
                else:
                    res.add(None if d.variadic else len(d.params))
        return res

    def forwarding(self, d):
        """For a function-like macro whose body is a single call: (callee, [arg texts])."""
        if d.kind != 'macro' or d.params is None:
            return None
        b = d.body.strip()
        while b.startswith('(') and match_paren(b, 0) == len(b) - 1:
            b = b[1:-1].strip()
        m = re.match(r'(?:\(\s*[\w\s\*]+\)\s*)?([A-Za-z_]\w*)\s*\(', b)
        if not m:
            return None
        lp = m.end() - 1
        rp = match_paren(b, lp)
        if rp != len(b) - 1:
            return None
        return (m.group(1), split_args(b[lp + 1:rp]))
