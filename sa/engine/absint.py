"""Abstract domain for the NUM rules: interval x known-bits-with-provenance x linear-in-one-atom.

A value is described by
  lo, hi   integer bounds (None = unbounded)
  bits     list of W entries: 0, 1, ('b', atom, i) = "bit i of atom", or None (unknown)
  lin      (atom, k): the value equals atom + k exactly, or None
Atoms are symbolic unknowns (inputs, or values renamed at an assignment) whose own ranges are kept in a
per-path table, so a guard such as `offset < (1 << 9)` refines which bits of the atom can be non-zero.
This is abstract interpretation (LLVM's KnownBits extended with provenance); no solver is involved.
"""
import ast, json, os, re, subprocess, tempfile

from ..core import AnalysisError

W = 40


class AV:
    __slots__ = ('lo', 'hi', 'bits', 'lin')

    def __init__(self, lo=None, hi=None, bits=None, lin=None):
        self.lo, self.hi, self.lin = lo, hi, lin
        self.bits = bits if bits is not None else [None] * W

    def __repr__(self):
        def b(x):
            return '?' if x is None else str(x) if x in (0, 1) else '%s.%d' % (x[1], x[2])
        hi = max([i for i, x in enumerate(self.bits) if x != 0] + [0])
        return 'AV[%s..%s lin=%s bits(lsb first)=%s]' % (self.lo, self.hi, self.lin, ' '.join(b(x) for x in self.bits[:hi + 1]))


def const(c):
    if c >= 0:
        return AV(c, c, [(c >> i) & 1 for i in range(W)], None)
    return AV(c, c, [None] * W, None)


class State:
    """One path state: variable environment + atom ranges + atom definitions (atom = other + k)."""

    def __init__(self):
        self.env = {}
        self.rng = {}
        self.rel = {}
        self.counter = [0]
        self.out = []
        self.notes = []

    def copy(self):
        s = State()
        s.env = dict(self.env)
        s.rng = dict(self.rng)
        s.rel = dict(self.rel)
        s.counter = self.counter
        s.out = list(self.out)
        s.notes = list(self.notes)
        return s

    def atom(self, name, lo=None, hi=None):
        self.counter[0] += 1
        a = '%s@%d' % (name, self.counter[0])
        self.rng[a] = (lo, hi)
        return a

    def atom_av(self, a):
        lo, hi = self.rng.get(a, (None, None))
        bits = [('b', a, i) for i in range(W)]
        av = AV(lo, hi, bits, (a, 0))
        return self.norm(av)

    def norm(self, av):
        """Use current atom ranges: bits of an atom above its range are 0; intersect interval with bit bound."""
        bits = list(av.bits)
        for i, b in enumerate(bits):
            if isinstance(b, tuple):
                lo, hi = self.rng.get(b[1], (None, None))
                if lo is not None and lo >= 0 and hi is not None and hi < (1 << b[2]):
                    bits[i] = 0
        lo, hi = av.lo, av.hi
        if av.lin is not None:
            alo, ahi = self.rng.get(av.lin[0], (None, None))
            l2 = None if alo is None else alo + av.lin[1]
            h2 = None if ahi is None else ahi + av.lin[1]
            lo = l2 if lo is None else (lo if l2 is None else max(lo, l2))
            hi = h2 if hi is None else (hi if h2 is None else min(hi, h2))
        # bits -> interval: when every bit is known or has provenance the value is bounded by the non-zero positions
        if not any(b is None for b in bits):
            bound = sum(1 << i for i, b in enumerate(bits) if b != 0)
            least = sum(1 << i for i, b in enumerate(bits) if b == 1)
            hi = bound if hi is None else min(hi, bound)
            lo = least if lo is None else max(lo, least)
        if lo is not None and lo == hi and lo >= 0:
            bits = [(lo >> i) & 1 for i in range(W)]      # singleton: all bits known
        if lo is not None and lo >= 0 and hi is not None:
            n = hi.bit_length()
            for i in range(n, W):
                if bits[i] is None or isinstance(bits[i], tuple):
                    bits[i] = 0
        return AV(lo, hi, bits, av.lin)

    def root(self, lin):
        """Normalise (atom, k) through atom definitions to the root atom."""
        if lin is None:
            return None
        a, k = lin
        seen = 0
        while a in self.rel and seen < 20:
            a2, k2 = self.rel[a]
            a, k = a2, k + k2
            seen += 1
        return (a, k)

    def as_lin(self, av):
        """If av's bits are exactly the bits of one atom (identity positions, zeros above its range) return (atom, 0)."""
        av = self.norm(av)
        if av.lin is not None:
            return av.lin
        atoms = {b[1] for b in av.bits if isinstance(b, tuple)}
        if len(atoms) != 1 or any(b is None or b == 1 for b in av.bits):
            return None
        a = next(iter(atoms))
        lo, hi = self.rng.get(a, (None, None))
        if lo is None or lo < 0 or hi is None:
            return None
        n = hi.bit_length()
        for i in range(W):
            want = ('b', a, i) if i < n else 0
            if av.bits[i] != want:
                return None
        return (a, 0)


# ------------------------------------------------------------------ transfer functions
def _iv(op, a, b):
    def f(x, y, fn):
        return None if x is None or y is None else fn(x, y)
    if op == '+':
        return f(a.lo, b.lo, lambda x, y: x + y), f(a.hi, b.hi, lambda x, y: x + y)
    if op == '-':
        return f(a.lo, b.hi, lambda x, y: x - y), f(a.hi, b.lo, lambda x, y: x - y)
    return None, None


def binop(st, op, a, b):
    a, b = st.norm(a), st.norm(b)
    nonneg = a.lo is not None and a.lo >= 0 and b.lo is not None and b.lo >= 0
    if op in ('+', '-'):
        lo, hi = _iv(op, a, b)
        lin = None
        if b.lo is not None and b.lo == b.hi:
            k = b.lo if op == '+' else -b.lo
            if a.lin is None:
                a_l = st.as_lin(a)
            else:
                a_l = a.lin
            if a_l is not None:
                lin = (a_l[0], a_l[1] + k)
        elif op == '+' and a.lo is not None and a.lo == a.hi:
            b_l = b.lin or st.as_lin(b)
            if b_l is not None:
                lin = (b_l[0], b_l[1] + a.lo)
        bits = [None] * W
        if op == '+' and nonneg:
            # no-carry addition: disjoint known bits behave like OR
            if all((x == 0 or y == 0) for x, y in zip(a.bits, b.bits)):
                bits = [y if x == 0 else x for x, y in zip(a.bits, b.bits)]
        return st.norm(AV(lo, hi, bits, lin))
    if op == '&':
        bits = []
        for x, y in zip(a.bits, b.bits):
            if x == 0 or y == 0:
                bits.append(0)
            elif x == 1:
                bits.append(y)
            elif y == 1:
                bits.append(x)
            elif x == y and x is not None:
                bits.append(x)
            else:
                bits.append(None)
        hi = None
        if nonneg:
            cands = [h for h in (a.hi, b.hi) if h is not None]
            hi = min(cands) if cands else None
        elif b.lo is not None and b.lo == b.hi and b.lo >= 0:
            hi = b.lo
        elif a.lo is not None and a.lo == a.hi and a.lo >= 0:
            hi = a.lo
        return st.norm(AV(0 if hi is not None else None, hi, bits, None))
    if op == '|':
        bits = []
        for x, y in zip(a.bits, b.bits):
            if x == 1 or y == 1:
                bits.append(1)
            elif x == 0:
                bits.append(y)
            elif y == 0:
                bits.append(x)
            elif x == y and x is not None:
                bits.append(x)
            else:
                bits.append(None)
        lo = hi = None
        if nonneg:
            lo = max(a.lo, b.lo)
            if a.hi is not None and b.hi is not None:
                hi = (1 << max(a.hi.bit_length(), b.hi.bit_length())) - 1
            if all(x == 0 or y == 0 for x, y in zip(a.bits, b.bits)):
                # disjoint operands: OR is addition
                lo = a.lo + b.lo
                hi = a.hi + b.hi if a.hi is not None and b.hi is not None else hi
        return st.norm(AV(lo, hi, bits, None))
    if op == '^':
        bits = [(x if y == 0 else y if x == 0 else (1 - x if y == 1 and x in (0, 1) else None)) for x, y in zip(a.bits, b.bits)]
        return st.norm(AV(None, None, bits, None))
    if op in ('<<', '>>') and b.lo is not None and b.lo == b.hi and 0 <= b.lo < W:
        k = b.lo
        if op == '<<':
            bits = [0] * k + a.bits[:W - k]
            lo = None if a.lo is None else a.lo << k
            hi = None if a.hi is None else a.hi << k
        else:
            bits = a.bits[k:] + [0 if (a.lo is not None and a.lo >= 0) else None] * k
            lo = None if a.lo is None else a.lo >> k
            hi = None if a.hi is None else a.hi >> k
        return st.norm(AV(lo, hi, bits, None))
    if op == '*' and b.lo is not None and b.lo == b.hi and b.lo >= 0 and nonneg:
        return AV(a.lo * b.lo, None if a.hi is None else a.hi * b.lo, None, None)
    return AV()


def refine_cmp(st, av, op, c, truth):
    """Refine the range of the atom behind `av` by the comparison `av <op> c` being `truth`. Returns False if infeasible."""
    neg = {'<': '>=', '<=': '>', '>': '<=', '>=': '<', '==': '!=', '!=': '=='}
    if not truth:
        op = neg[op]
    av = st.norm(av)
    lin = av.lin or st.as_lin(av)
    lo, hi = av.lo, av.hi
    nlo, nhi = lo, hi
    if op == '<':
        nhi = c - 1 if hi is None else min(hi, c - 1)
    elif op == '<=':
        nhi = c if hi is None else min(hi, c)
    elif op == '>':
        nlo = c + 1 if lo is None else max(lo, c + 1)
    elif op == '>=':
        nlo = c if lo is None else max(lo, c)
    elif op == '==':
        nlo = c if lo is None else max(lo, c)
        nhi = c if hi is None else min(hi, c)
    elif op == '!=':
        if lo is not None and lo == hi == c:
            return False
        if lo is not None and lo == c:
            nlo = c + 1
        if hi is not None and hi == c:
            nhi = c - 1
    if nlo is not None and nhi is not None and nlo > nhi:
        return False
    if lin is not None:
        a, k = lin
        alo, ahi = st.rng.get(a, (None, None))
        l2 = None if nlo is None else nlo - k
        h2 = None if nhi is None else nhi - k
        alo = l2 if alo is None else (alo if l2 is None else max(alo, l2))
        ahi = h2 if ahi is None else (ahi if h2 is None else min(ahi, h2))
        if alo is not None and ahi is not None and alo > ahi:
            return False
        st.rng[a] = (alo, ahi)
    return True


# ------------------------------------------------------------------ clang JSON AST helper
def clang_function_ast(source_text, func_name, prelude='#include <stdint.h>\n#include <string.h>\n#include <stddef.h>\n'):
    """Parse a self-contained C snippet with clang and return the JSON AST of function `func_name` (with body)."""
    with tempfile.TemporaryDirectory(prefix='sa_clang_') as d:
        p = os.path.join(d, 't.c')
        with open(p, 'w') as f:
            f.write(prelude + source_text)
        try:
            r = subprocess.run(['clang', '-fsyntax-only', '-w', '-Xclang', '-ast-dump=json', '-Xclang', '-ast-dump-filter=' + func_name, p],
                               stdout=subprocess.PIPE, stderr=subprocess.PIPE, text=True, timeout=60)
        except (OSError, subprocess.TimeoutExpired) as e:
            raise AnalysisError('clang not runnable: %s' % e)
        if r.returncode != 0:
            raise AnalysisError('clang cannot parse the snippet for %s: %s' % (func_name, r.stderr[-400:]))
        txt = r.stdout
    dec = json.JSONDecoder()
    i, found = 0, None
    while i < len(txt):
        j = txt.find('{', i)
        if j < 0:
            break
        try:
            d, k = dec.raw_decode(txt, j)
        except ValueError:
            i = j + 1
            continue
        i = k
        if d.get('kind') == 'FunctionDecl' and d.get('name') == func_name and any(c.get('kind') == 'CompoundStmt' for c in d.get('inner', [])):
            found = d
    if found is None:
        raise AnalysisError('function %s not found in clang AST' % func_name)
    return found


def c_strip(n):
    while n.get('kind') in ('ImplicitCastExpr', 'ParenExpr', 'CStyleCastExpr', 'ConstantExpr') and n.get('inner'):
        n = n['inner'][-1]
    return n


def c_walk(n):
    yield n
    for c in n.get('inner', []) or []:
        if isinstance(c, dict):
            yield from c_walk(c)


def c_name(n):
    n = c_strip(n)
    if n.get('kind') == 'DeclRefExpr':
        return (n.get('referencedDecl') or {}).get('name')
    return None
