"""A small C expression parser (precedence climbing) and evaluator over Python ints — for decision expressions in utility code.

AST: ('num', v: int, or float for a floating literal) ('id', name) ('un', op, x) ('bin', op, a, b) ('tern', c, a, b) ('call', name, [args]) ('cast', type text, x)
     ('char', v) ('sizeof', text)"""
import re

TOK = re.compile(r"\s*(?:(?P<flt>(?:\d+\.\d*|\.\d+)(?:[eE][-+]?\d+)?[fFlL]?|\d+[eE][-+]?\d+[fFlL]?)|(?P<int>0[xX][0-9a-fA-F]+|\d+)[uUlL]*|(?P<chr>'(?:\\.|[^'\\])+')|"
                 r"(?P<id>%\(\w+\)s|\{\{[^}]*\}\}|[A-Za-z_]\w*(?:->\w+|\.\w+)*)|(?P<op><<=|>>=|<<|>>|<=|>=|==|!=|&&|\|\||[-+*/%&|^~!<>?:(),\[\]]))")

BINPREC = {'||': 1, '&&': 2, '|': 3, '^': 4, '&': 5, '==': 6, '!=': 6, '<': 7, '>': 7, '<=': 7, '>=': 7, '<<': 8, '>>': 8,
           '+': 9, '-': 9, '*': 10, '/': 10, '%': 10}
TYPEWORD = re.compile(r'^(?:const|unsigned|signed|int|long|short|char|size_t|Py_ssize_t|Py_hash_t|Py_UCS4|double|float|void|PY_LONG_LONG|'
                      r'%\(type\)s|\{\{[^}]*\}\}|\w+_t|PyObject|struct)$')


class ParseError(Exception):
    pass


def tokenize(s):
    out, i = [], 0
    s = s.replace('%%', '%')
    while i < len(s):
        if s[i:].strip() == '':
            break
        m = TOK.match(s, i)
        if not m:
            raise ParseError('cannot tokenize at %r' % s[i:i + 20])
        if m.group('flt') is not None:
            out.append(('num', float(m.group('flt').rstrip('fFlL'))))
        elif m.group('int') is not None:
            out.append(('num', int(m.group('int'), 0)))
        elif m.group('chr') is not None:
            body = m.group('chr')[1:-1]
            out.append(('char', ord(bytes(body, 'latin-1').decode('unicode_escape'))))
        elif m.group('id') is not None:
            out.append(('id', m.group('id')))
        else:
            out.append(('op', m.group('op')))
        i = m.end()
    return out


class Parser:
    def __init__(self, text):
        self.t = tokenize(text)
        self.i = 0

    def peek(self, k=0):
        return self.t[self.i + k] if self.i + k < len(self.t) else (None, None)

    def take(self, kind=None, val=None):
        tk = self.peek()
        if (kind and tk[0] != kind) or (val is not None and tk[1] != val):
            raise ParseError('expected %s %s, found %s' % (kind, val, tk))
        self.i += 1
        return tk

    def parse(self):
        e = self.ternary()
        if self.i != len(self.t):
            raise ParseError('trailing tokens %s' % (self.t[self.i:self.i + 4],))
        return e

    def ternary(self):
        c = self.binary(1)
        if self.peek() == ('op', '?'):
            self.take()
            a = self.ternary()
            self.take('op', ':')
            b = self.ternary()
            return ('tern', c, a, b)
        return c

    def binary(self, minprec):
        lhs = self.unary()
        while True:
            k, v = self.peek()
            if k != 'op' or v not in BINPREC or BINPREC[v] < minprec:
                return lhs
            self.take()
            rhs = self.binary(BINPREC[v] + 1)
            lhs = ('bin', v, lhs, rhs)

    def _is_cast(self):
        # '(' type words [*...] ')' followed by an operand
        j = self.i + 1
        n = 0
        while j < len(self.t) and self.t[j][0] == 'id' and TYPEWORD.match(self.t[j][1]):
            j += 1
            n += 1
        while j < len(self.t) and self.t[j] == ('op', '*'):
            j += 1
        if n and j < len(self.t) and self.t[j] == ('op', ')'):
            nxt = self.t[j + 1] if j + 1 < len(self.t) else (None, None)
            if nxt[0] in ('id', 'num', 'char') or nxt in (('op', '('), ('op', '-'), ('op', '~'), ('op', '!')):
                return j
        return None

    def unary(self):
        k, v = self.peek()
        if k == 'op' and v in ('-', '+', '!', '~', '*', '&'):
            self.take()
            return ('un', v, self.unary())
        if k == 'op' and v == '(':
            j = self._is_cast()
            if j is not None:
                ty = ' '.join(x[1] for x in self.t[self.i + 1:j])
                self.i = j + 1
                return ('cast', ty, self.unary())
        return self.postfix()

    def postfix(self):
        k, v = self.peek()
        if k == 'num':
            self.take()
            return ('num', v)
        if k == 'char':
            self.take()
            return ('char', v)
        if k == 'op' and v == '(':
            self.take()
            e = self.ternary()
            self.take('op', ')')
            return e
        if k == 'id':
            self.take()
            if v == 'sizeof' and self.peek() == ('op', '('):
                depth, j = 0, self.i
                while j < len(self.t):
                    if self.t[j] == ('op', '('):
                        depth += 1
                    elif self.t[j] == ('op', ')'):
                        depth -= 1
                        if depth == 0:
                            break
                    j += 1
                txt = ' '.join(str(x[1]) for x in self.t[self.i + 1:j])
                self.i = j + 1
                return ('sizeof', txt)
            if self.peek() == ('op', '('):
                self.take()
                args = []
                if self.peek() != ('op', ')'):
                    args.append(self.ternary())
                    while self.peek() == ('op', ','):
                        self.take()
                        args.append(self.ternary())
                self.take('op', ')')
                return ('call', v, args)
            e = ('id', v)
            while self.peek() == ('op', '['):
                self.take()
                idx = self.ternary()
                self.take('op', ']')
                e = ('bin', '[]', e, idx)
            return e
        raise ParseError('unexpected token %s' % ((k, v),))


def parse(text):
    return Parser(text).parse()


def walk(e):
    yield e
    for x in e[1:]:
        if isinstance(x, tuple):
            yield from walk(x)
        elif isinstance(x, list):
            for y in x:
                yield from walk(y)


class EvalError(Exception):
    pass


def evaluate(e, env, calls=None):
    """Evaluate with C-like integer semantics on unbounded Python ints (no overflow modelling); likely()/unlikely() are identity."""
    k = e[0]
    if k in ('num', 'char'):
        return e[1]
    if k == 'id':
        if e[1] in env:
            return env[e[1]]
        raise EvalError('free identifier %s' % e[1])
    if k == 'cast':
        return evaluate(e[2], env, calls)
    if k == 'un':
        v = evaluate(e[2], env, calls)
        return {'-': lambda: -v, '+': lambda: v, '!': lambda: int(not v), '~': lambda: ~v}.get(e[1], lambda: (_ for _ in ()).throw(EvalError('unary ' + e[1])))()
    if k == 'tern':
        return evaluate(e[2], env, calls) if evaluate(e[1], env, calls) else evaluate(e[3], env, calls)
    if k == 'call':
        if e[1] in ('likely', 'unlikely') and len(e[2]) == 1:
            return evaluate(e[2][0], env, calls)
        if calls and e[1] in calls:
            return calls[e[1]](*[evaluate(a, env, calls) for a in e[2]])
        raise EvalError('call of %s' % e[1])
    if k == 'bin':
        op = e[1]
        if op == '&&':
            return int(bool(evaluate(e[2], env, calls)) and bool(evaluate(e[3], env, calls)))
        if op == '||':
            return int(bool(evaluate(e[2], env, calls)) or bool(evaluate(e[3], env, calls)))
        a, b = evaluate(e[2], env, calls), evaluate(e[3], env, calls)
        if op in ('/', '%'):
            if b == 0:
                raise EvalError('division by zero')
            q = abs(a) // abs(b) * (1 if (a < 0) == (b < 0) else -1)
            return q if op == '/' else a - q * b
        f = {'|': lambda: a | b, '^': lambda: a ^ b, '&': lambda: a & b, '==': lambda: int(a == b), '!=': lambda: int(a != b), '<': lambda: int(a < b),
             '>': lambda: int(a > b), '<=': lambda: int(a <= b), '>=': lambda: int(a >= b), '<<': lambda: a << b, '>>': lambda: a >> b,
             '+': lambda: a + b, '-': lambda: a - b, '*': lambda: a * b}.get(op)
        if f is None:
            raise EvalError('operator ' + op)
        return f()
    raise EvalError('node ' + k)
