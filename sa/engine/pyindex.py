"""E1 — resolved Python program: modules, import aliases, classes with cross-module MRO,
method/attribute tables, visitor dispatch, call-site helpers.

Resolution is nominal.  That is exact for this code base: Cython's own visitors dispatch on
``type(node).__name__`` and handler method names.
"""
import ast, os, collections

from ..core import AnalysisError

SKIP_DIRS = {'Tests', 'Debugger', '__pycache__', 'Includes'}


class Module:
    def __init__(self, name, rel, tree, src):
        self.name, self.rel, self.tree, self.src = name, rel, tree, src
        self.short = name.rsplit('.', 1)[-1]
        self.imports = {}      # local alias -> ('module', dotted) | ('symbol', dotted module, name)
        self.classes = {}      # name -> ClassInfo (top level and nested, by simple name; first wins)
        self.functions = {}    # top-level functions
        self.bindings = {}     # module-level names -> ast value node (last assignment) or True
        self.dynamic_globals = False


class ClassInfo:
    def __init__(self, module, node, outer=None):
        self.module, self.node, self.name = module, node, node.name
        self.outer = outer
        self.base_exprs = node.bases
        self.bases = []        # resolved ClassInfo list
        self.unresolved_bases = []
        self.methods = {}      # name -> FunctionDef (own)
        self.aliases = {}      # name -> name (class-level `a = b` where b is a Name)
        self.attrs = {}        # class-level attribute name -> value node (own)
        self.self_attrs = set()  # attributes assigned via self.x in own methods
        self._mro = None

    @property
    def qual(self):
        return '%s.%s' % (self.module.short, self.name)

    def __repr__(self):
        return '<class %s>' % self.qual


def _self_name(fn):
    if fn.args.args:
        return fn.args.args[0].arg
    if fn.args.posonlyargs:
        return fn.args.posonlyargs[0].arg
    return None


class PyIndex:
    def __init__(self, ctx, roots=('Cython', 'pyximport')):
        self.ctx = ctx
        self.modules = {}        # dotted name -> Module
        self.by_rel = {}
        self.classes_by_name = collections.defaultdict(list)
        for root in roots:
            base = ctx.path(root)
            if not os.path.isdir(base):
                raise AnalysisError('package directory missing: %s' % root)
            for dp, dns, fns in os.walk(base):
                dns[:] = sorted(d for d in dns if d not in SKIP_DIRS)
                for fn in sorted(fns):
                    if fn.endswith('.py'):
                        rel = os.path.relpath(os.path.join(dp, fn), ctx.repo)
                        self._load(rel)
        if len(self.modules) < 60:
            raise AnalysisError('only %d python modules indexed' % len(self.modules))
        for m in self.modules.values():
            self._scan_module(m)
        for m in self.modules.values():
            for c in list(self._all_classes(m)):
                self._resolve_bases(c)
        self._subclasses = collections.defaultdict(list)
        for c in self.all_classes():
            for b in c.bases:
                self._subclasses[id(b)].append(c)

    # ------------------------------------------------------------ loading
    def _load(self, rel):
        src = self.ctx.read(rel)
        try:
            tree = ast.parse(src, filename=rel)
        except SyntaxError as e:
            raise AnalysisError('cannot parse %s: %s' % (rel, e))
        name = rel[:-3].replace(os.sep, '.')
        if name.endswith('.__init__'):
            name = name[:-9]
        m = Module(name, rel, tree, src)
        self.modules[name] = m
        self.by_rel[rel] = m

    def mod(self, short_or_dotted):
        if short_or_dotted in self.modules:
            return self.modules[short_or_dotted]
        for k, m in self.modules.items():
            if k.endswith('.' + short_or_dotted):
                return m
        raise AnalysisError('module not found: %s' % short_or_dotted)

    def _scan_module(self, m):
        pkg = m.name.rsplit('.', 1)[0] if '.' in m.name else ''
        if m.rel.endswith('__init__.py'):
            pkg = m.name

        def rel_base(level):
            parts = pkg.split('.') if pkg else []
            if level > 1:
                parts = parts[:len(parts) - (level - 1)]
            return '.'.join(parts)

        def handle_import(node, table):
            if isinstance(node, ast.Import):
                for a in node.names:
                    if a.asname:
                        table[a.asname] = ('module', a.name)
                    else:
                        table[a.name.split('.')[0]] = ('module', a.name.split('.')[0])
            elif isinstance(node, ast.ImportFrom):
                base = node.module or ''
                if node.level:
                    rb = rel_base(node.level)
                    base = (rb + '.' + base) if base and rb else (rb or base)
                for a in node.names:
                    local = a.asname or a.name
                    full = (base + '.' + a.name) if base else a.name
                    if full in self.modules:
                        table[local] = ('module', full)
                    else:
                        table[local] = ('symbol', base, a.name)

        self._handle_import = handle_import
        for node in ast.walk(m.tree):
            # module-level and conditional imports (try/except ImportError, if TYPE_CHECKING) alike
            pass
        def scan_block(stmts):
            for node in stmts:
                if isinstance(node, (ast.Import, ast.ImportFrom)):
                    handle_import(node, m.imports)
                elif isinstance(node, ast.ClassDef):
                    self._scan_class(m, node, None)
                    m.bindings[node.name] = node
                elif isinstance(node, (ast.FunctionDef, ast.AsyncFunctionDef)):
                    m.functions[node.name] = node
                    m.bindings[node.name] = node
                elif isinstance(node, ast.Assign):
                    for t in node.targets:
                        for nm in _target_names(t):
                            m.bindings[nm] = node.value
                elif isinstance(node, (ast.AnnAssign, ast.AugAssign)):
                    for nm in _target_names(node.target):
                        m.bindings[nm] = getattr(node, 'value', None) or True
                elif isinstance(node, (ast.If, ast.Try, ast.With, ast.For, ast.While)):
                    for fld in ('body', 'orelse', 'finalbody'):
                        scan_block(getattr(node, fld, []) or [])
                    for h in getattr(node, 'handlers', []) or []:
                        scan_block(h.body)
                    if isinstance(node, ast.For):
                        for nm in _target_names(node.target):
                            m.bindings[nm] = True
                    if isinstance(node, ast.With):
                        for it in node.items:
                            if it.optional_vars is not None:
                                for nm in _target_names(it.optional_vars):
                                    m.bindings[nm] = True
                elif isinstance(node, ast.Delete):
                    pass
        scan_block(m.tree.body)
        # names bound through `global x` inside functions, and dynamic globals()[...] writes
        for fn in ast.walk(m.tree):
            if isinstance(fn, (ast.FunctionDef, ast.AsyncFunctionDef)):
                gl = set()
                for n in ast.walk(fn):
                    if isinstance(n, ast.Global):
                        gl.update(n.names)
                if gl:
                    for n in ast.walk(fn):
                        if isinstance(n, (ast.Assign, ast.AugAssign, ast.AnnAssign)):
                            tg = n.targets if isinstance(n, ast.Assign) else [n.target]
                            for t in tg:
                                for nm in _target_names(t):
                                    if nm in gl and nm not in m.bindings:
                                        m.bindings[nm] = getattr(n, 'value', True)
                        elif isinstance(n, (ast.Import, ast.ImportFrom)):
                            tmp = {}
                            handle_import(n, tmp)
                            for k, v in tmp.items():
                                if k in gl:
                                    m.imports.setdefault(k, v)
            if isinstance(fn, ast.Subscript) and isinstance(fn.value, ast.Call) and \
                    isinstance(fn.value.func, ast.Name) and fn.value.func.id in ('globals', 'vars') and \
                    isinstance(fn.ctx, ast.Store):
                m.dynamic_globals = True
        for k in m.imports:
            m.bindings.setdefault(k, True)

    def _scan_class(self, m, node, outer):
        c = ClassInfo(m, node, outer)
        m.classes.setdefault(node.name, c)
        self.classes_by_name[node.name].append(c)
        for s in node.body:
            if isinstance(s, (ast.FunctionDef, ast.AsyncFunctionDef)):
                c.methods[s.name] = s
                sn = _self_name(s)
                if sn:
                    for n in ast.walk(s):
                        if isinstance(n, ast.Attribute) and isinstance(n.value, ast.Name) and n.value.id == sn \
                                and isinstance(n.ctx, (ast.Store, ast.Del)):
                            c.self_attrs.add(n.attr)
            elif isinstance(s, ast.Assign):
                for t in s.targets:
                    for nm in _target_names(t):
                        c.attrs[nm] = s.value
                        if isinstance(s.value, ast.Name):
                            c.aliases[nm] = s.value.id
            elif isinstance(s, ast.AnnAssign):
                for nm in _target_names(s.target):
                    c.attrs[nm] = s.value if s.value is not None else True
            elif isinstance(s, ast.ClassDef):
                self._scan_class(m, s, c)
                c.attrs[s.name] = s
            elif isinstance(s, (ast.If, ast.Try)):
                # conditional class bodies (rare)
                for fld in ('body', 'orelse', 'finalbody'):
                    for s2 in getattr(s, fld, []) or []:
                        if isinstance(s2, (ast.FunctionDef, ast.AsyncFunctionDef)):
                            c.methods.setdefault(s2.name, s2)
                        elif isinstance(s2, ast.Assign):
                            for t in s2.targets:
                                for nm in _target_names(t):
                                    c.attrs.setdefault(nm, s2.value)
        return c

    def _all_classes(self, m):
        seen = set()
        for n in ast.walk(m.tree):
            if isinstance(n, ast.ClassDef):
                for c in self.classes_by_name[n.name]:
                    if c.node is n and id(c) not in seen:
                        seen.add(id(c))
                        yield c

    def all_classes(self):
        for lst in self.classes_by_name.values():
            yield from lst

    # ------------------------------------------------------------ resolution
    def resolve_name(self, m, name):
        """Resolve a simple name used in module m to ('class', ClassInfo) | ('module', Module) |
        ('func', Module, FunctionDef) | ('value', Module, node) | None."""
        if name in m.classes and m.classes[name].outer is None:
            return ('class', m.classes[name])
        if name in m.functions:
            return ('func', m, m.functions[name])
        imp = m.imports.get(name)
        if imp:
            if imp[0] == 'module':
                tm = self.modules.get(imp[1])
                return ('module', tm) if tm else ('extmodule', imp[1])
            tm = self.modules.get(imp[1])
            if tm is None:
                return ('extsymbol', imp[1], imp[2])
            if tm is m:
                return None
            return self.resolve_name(tm, imp[2])
        if name in m.bindings:
            return ('value', m, m.bindings[name])
        return None

    def resolve_expr(self, m, expr):
        """Resolve Name / dotted Attribute expression."""
        if isinstance(expr, ast.Name):
            return self.resolve_name(m, expr.id)
        if isinstance(expr, ast.Attribute):
            base = self.resolve_expr(m, expr.value)
            if base is None:
                return None
            if base[0] == 'module':
                return self.resolve_name(base[1], expr.attr)
            if base[0] == 'class':
                c = base[1]
                meth = self.find_method(c, expr.attr)
                if meth:
                    return ('method', meth[0], meth[1])
                a = self.find_class_attr(c, expr.attr)
                if a is not None:
                    if isinstance(a[1], ast.ClassDef):
                        for cc in self.classes_by_name[a[1].name]:
                            if cc.node is a[1]:
                                return ('class', cc)
                    return ('value', a[0].module, a[1])
        return None

    def _resolve_bases(self, c):
        for b in c.base_exprs:
            r = None
            if isinstance(b, ast.Name) and c.outer is not None and b.id in c.outer.attrs and \
                    isinstance(c.outer.attrs[b.id], ast.ClassDef):
                for cc in self.classes_by_name[b.id]:
                    if cc.node is c.outer.attrs[b.id]:
                        r = ('class', cc)
            if r is None:
                r = self.resolve_expr(c.module, b)
            if r and r[0] == 'class':
                c.bases.append(r[1])
            else:
                c.unresolved_bases.append(ast.unparse(b))

    def mro(self, c):
        if c._mro is None:
            out, seen = [], set()

            def walk(k):
                if id(k) in seen:
                    return
                seen.add(id(k))
                out.append(k)
                for b in k.bases:
                    walk(b)
            walk(c)
            # depth-first, left-to-right, then move shared bases last (good approximation of C3 for
            # the diamond shapes in this code base): keep last occurrence order by re-walking
            c._mro = self._c3(c) or out
        return c._mro

    def _c3(self, c):
        try:
            def merge(seqs):
                res = []
                seqs = [list(s) for s in seqs if s]
                while seqs:
                    for s in seqs:
                        cand = s[0]
                        if not any(cand in t[1:] for t in seqs):
                            break
                    else:
                        return None
                    res.append(cand)
                    seqs = [[x for x in t if x is not cand] for t in seqs]
                    seqs = [t for t in seqs if t]
                return res

            def lin(k, depth=0):
                if depth > 50:
                    raise RecursionError
                parts = [lin(b, depth + 1) for b in k.bases]
                if any(p is None for p in parts):
                    return None
                r = merge(parts + [list(k.bases)])
                return None if r is None else [k] + r
            return lin(c)
        except RecursionError:
            return None

    def is_subclass(self, c, base_name):
        return any(k.name == base_name for k in self.mro(c))

    def subclasses(self, c, transitive=True):
        out, todo, seen = [], [c], set()
        while todo:
            k = todo.pop()
            for s in self._subclasses.get(id(k), []):
                if id(s) not in seen:
                    seen.add(id(s))
                    out.append(s)
                    if transitive:
                        todo.append(s)
        return out

    def cls(self, modshort, name):
        m = self.mod(modshort)
        if name not in m.classes:
            raise AnalysisError('class %s.%s not found' % (modshort, name))
        return m.classes[name]

    def find_method(self, c, name, skip_self=False):
        for k in self.mro(c)[1 if skip_self else 0:]:
            if name in k.methods:
                return (k, k.methods[name])
            if name in k.aliases:
                tgt = k.aliases[name]
                r = self.find_method(k, tgt) if tgt != name else None
                if r:
                    return r
            if name in k.attrs:
                return None  # shadowed by a non-method attribute
        return None

    def find_class_attr(self, c, name):
        for k in self.mro(c):
            if name in k.attrs:
                return (k, k.attrs[name])
        return None

    def class_list_attr(self, c, name):
        """Literal list/tuple class attribute (e.g. child_attrs) along the MRO -> (owner, [str]) or None."""
        a = self.find_class_attr(c, name)
        if a is None:
            return None
        try:
            v = ast.literal_eval(a[1])
        except Exception:
            v = self._eval_list_expr(a[0], a[1])
        if v is None:
            return (a[0], None)
        return (a[0], list(v))

    def _eval_list_expr(self, owner, node):
        # handles  Base.child_attrs + ['x']   and  ['a'] + Base.subexprs
        if isinstance(node, ast.BinOp) and isinstance(node.op, ast.Add):
            l = self._eval_list_expr(owner, node.left)
            r = self._eval_list_expr(owner, node.right)
            if l is None or r is None:
                return None
            return list(l) + list(r)
        if isinstance(node, (ast.List, ast.Tuple)):
            try:
                return list(ast.literal_eval(node))
            except Exception:
                return None
        if isinstance(node, ast.Attribute):
            r = self.resolve_expr(owner.module, node.value)
            if r and r[0] == 'class':
                x = self.class_list_attr(r[1], node.attr)
                return x[1] if x else None
        return None

    def defined_attrs(self, c):
        """All attribute names an instance of c (or of any subclass, optionally) may have via the MRO."""
        out = set()
        for k in self.mro(c):
            out |= set(k.methods) | set(k.attrs) | k.self_attrs
        return out

    # ------------------------------------------------------------ visitor dispatch
    def node_classes(self):
        return self.memo_node_classes()

    def memo_node_classes(self):
        if not hasattr(self, '_node_classes'):
            root = self.cls('Nodes', 'Node')
            self._node_classes = [root] + self.subclasses(root)
        return self._node_classes

    def visitor_handler(self, vis, node_cls, prefix='visit_'):
        """The handler Visitor.find_handler would select for an instance of node_cls."""
        for k in self.mro(node_cls):
            r = self.find_method(vis, prefix + k.name)
            if r:
                return (k, r[0], r[1])
        return None

    def functions_of(self, m):
        """Yield (qualname, owner ClassInfo|None, FunctionDef) for all functions incl. methods and nested."""
        def rec(stmts, prefix, owner):
            for s in stmts:
                if isinstance(s, (ast.FunctionDef, ast.AsyncFunctionDef)):
                    yield (prefix + s.name, owner, s)
                    yield from rec(s.body, prefix + s.name + '.', owner)
                elif isinstance(s, ast.ClassDef):
                    ci = None
                    for cc in self.classes_by_name[s.name]:
                        if cc.node is s:
                            ci = cc
                    yield from rec(s.body, prefix + s.name + '.', ci)
                elif isinstance(s, (ast.If, ast.Try, ast.With, ast.For, ast.While)):
                    for fld in ('body', 'orelse', 'finalbody'):
                        yield from rec(getattr(s, fld, []) or [], prefix, owner)
                    for h in getattr(s, 'handlers', []) or []:
                        yield from rec(h.body, prefix, owner)
        yield from rec(m.tree.body, '', None)


def _target_names(t):
    if isinstance(t, ast.Name):
        yield t.id
    elif isinstance(t, (ast.Tuple, ast.List)):
        for e in t.elts:
            yield from _target_names(e)
    elif isinstance(t, ast.Starred):
        yield from _target_names(t.value)


def call_name(call):
    """'f' for f(...), 'attr' for x.attr(...)."""
    f = call.func
    if isinstance(f, ast.Name):
        return f.id
    if isinstance(f, ast.Attribute):
        return f.attr
    return None


def is_self_attr(n, selfname='self'):
    return isinstance(n, ast.Attribute) and isinstance(n.value, ast.Name) and n.value.id == selfname


def walk_no_nested(fn):
    """ast.walk over a function body without descending into function/class definitions nested deeper than the body's top level
    (definitions that are statements of the body itself are walked: local helper closures belong to the method's behaviour).
    Given any other node (a compound statement, an expression) the whole node is walked, including tests, else branches and handlers."""
    if isinstance(fn, (ast.FunctionDef, ast.AsyncFunctionDef, ast.Module, ast.ClassDef)):
        todo = list(fn.body)
    elif isinstance(fn, ast.Lambda):
        todo = [fn.body]
    else:
        todo = [fn]
    while todo:
        n = todo.pop()
        yield n
        for ch in ast.iter_child_nodes(n):
            if isinstance(ch, (ast.FunctionDef, ast.AsyncFunctionDef, ast.ClassDef, ast.Lambda)):
                continue
            todo.append(ch)
