"""E5 — reference tables read from the installed CPython (headers and stdlib) and literal-table helpers."""
import ast, os, re, sysconfig

from ..core import AnalysisError
from .cutil import split_args, strip_c_comments, match_paren

_API = None


def cpython_include():
    inc = sysconfig.get_paths()['include']
    if not os.path.exists(os.path.join(inc, 'Python.h')):
        raise AnalysisError('CPython headers not found at %s' % inc)
    return inc


def cpython_api():
    """name -> (return type text, [param texts]) for every PyAPI_FUNC declaration in the installed headers."""
    global _API
    if _API is not None:
        return _API
    inc = cpython_include()
    api = {}
    rx = re.compile(r'PyAPI_FUNC\(([^)]*)\)\s*(\w+)\s*\(')
    for dp, dns, fns in os.walk(inc):
        for fn in fns:
            if not fn.endswith('.h'):
                continue
            try:
                txt = strip_c_comments(open(os.path.join(dp, fn), encoding='utf-8', errors='replace').read())
            except OSError:
                continue
            for m in rx.finditer(txt):
                lp = m.end() - 1
                rp = match_paren(txt, lp)
                if rp < 0:
                    continue
                params = split_args(' '.join(txt[lp + 1:rp].split()))
                api.setdefault(m.group(2), (' '.join(m.group(1).split()), params))
    if len(api) < 800:
        raise AnalysisError('only %d C-API prototypes found in %s' % (len(api), inc))
    _API = api
    return api


def literal(node):
    try:
        return ast.literal_eval(node)
    except Exception:
        return None


def module_assign(tree, name):
    """Last module-level assignment `name = <value>` -> value node (or None)."""
    val = None
    for n in tree.body:
        if isinstance(n, ast.Assign) and any(isinstance(t, ast.Name) and t.id == name for t in n.targets):
            val = n.value
        elif isinstance(n, ast.AnnAssign) and isinstance(n.target, ast.Name) and n.target.id == name and n.value is not None:
            val = n.value
    return val


def find_function(tree, name, cls=None):
    scope = tree.body
    if cls:
        for n in tree.body:
            if isinstance(n, ast.ClassDef) and n.name == cls:
                scope = n.body
                break
        else:
            raise AnalysisError('class %s not found' % cls)
    for n in scope:
        if isinstance(n, (ast.FunctionDef, ast.AsyncFunctionDef)) and n.name == name:
            return n
    raise AnalysisError('function %s%s not found' % ((cls + '.') if cls else '', name))
