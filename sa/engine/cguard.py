"""Enclosing-condition extraction for C text (utility code): for a position inside a function body, the chain of
`if (...)` / `else` conditions whose branches enclose it.  Text-structural (braces and parentheses), preprocessor lines are
kept as they are (an `#if` does not open a C block)."""
import re

from .cutil import match_paren, strip_c_comments


def _skip_ws(s, i):
    n = len(s)
    while i < n:
        if s[i].isspace():
            i += 1
        elif s[i] == '#' and (i == 0 or s[:i].rstrip(' \t').endswith('\n') or not s[:i].strip()):
            j = s.find('\n', i)
            i = n if j < 0 else j + 1
        else:
            break
    return i


def _stmt_end(s, i):
    """End (exclusive) of the statement starting at i: a braced block, an if/else chain, or up to the next ';'."""
    i = _skip_ws(s, i)
    if i >= len(s):
        return i
    if s[i] == '{':
        return _match_brace(s, i) + 1
    m = re.match(r'(if|while|for|switch)\b\s*\(', s[i:])
    if m:
        p = i + m.end() - 1
        q = match_paren(s, p)
        e = _stmt_end(s, q + 1)
        if m.group(1) == 'if':
            k = _skip_ws(s, e)
            if re.match(r'else\b', s[k:]):
                return _stmt_end(s, k + 4)
        return e
    if re.match(r'else\b', s[i:]):
        return _stmt_end(s, i + 4)
    if re.match(r'do\b', s[i:]):
        e = _stmt_end(s, i + 2)
        j = s.find(';', e)
        return len(s) if j < 0 else j + 1
    depth = 0
    j = i
    while j < len(s):
        c = s[j]
        if c in '([{':
            depth += 1
        elif c in ')]}':
            if depth == 0:
                return j
            depth -= 1
        elif c == ';' and depth == 0:
            return j + 1
        elif c in '"\'':
            j = _skip_str(s, j)
            continue
        j += 1
    return j


def _skip_str(s, j):
    q = s[j]
    j += 1
    while j < len(s) and s[j] != q:
        if s[j] == '\\':
            j += 1
        j += 1
    return j + 1


def _match_brace(s, i):
    depth = 0
    j = i
    while j < len(s):
        c = s[j]
        if c in '"\'':
            j = _skip_str(s, j)
            continue
        if c == '{':
            depth += 1
        elif c == '}':
            depth -= 1
            if depth == 0:
                return j
        j += 1
    return len(s) - 1


def guards(body, pos):
    """[(condition text, polarity)] of the if/else branches of `body` (comments already stripped or not) enclosing offset pos."""
    out = []

    def scan(lo, hi):
        i = lo
        while i < hi:
            i = _skip_ws(body, i)
            if i >= hi or i > pos:
                return
            e = _stmt_end(body, i)
            if e <= i:
                e = i + 1
            if not (i <= pos < e):
                i = e
                continue
            if body[i] == '{':
                scan(i + 1, e - 1)
                return
            m = re.match(r'(if|while|for|switch)\b\s*\(', body[i:e])
            if m:
                p = i + m.end() - 1
                q = match_paren(body, p)
                cond = ' '.join(body[p + 1:q].split())
                if pos <= q:
                    return
                te = _stmt_end(body, q + 1)
                if pos < te:
                    if m.group(1) in ('if', 'while'):
                        out.append((cond, True))
                    scan(q + 1, te)
                    return
                k = _skip_ws(body, te)
                if m.group(1) == 'if' and re.match(r'else\b', body[k:]):
                    out.append((cond, False))
                    scan(k + 4, e)
                return
            if re.match(r'else\b', body[i:]):
                scan(i + 4, e)
                return
            if re.match(r'do\b', body[i:]):
                scan(i + 2, e)
            return
    scan(0, len(body))
    return out


def dominators(body, pos):
    """Texts of the statements that precede offset pos in each enclosing block of `body`, outermost first — every one of them has
    been executed (entered, for compound statements) when control reaches pos by falling through."""
    out = []

    def scan(lo, hi):
        i = lo
        while i < hi:
            i = _skip_ws(body, i)
            if i >= hi or i > pos:
                return
            e = _stmt_end(body, i)
            if e <= i:
                e = i + 1
            if not (i <= pos < e):
                out.append(body[i:e])
                i = e
                continue
            if body[i] == '{':
                scan(i + 1, e - 1)
                return
            m = re.match(r'(if|while|for|switch)\b\s*\(', body[i:e])
            if m:
                p = i + m.end() - 1
                q = match_paren(body, p)
                if pos <= q:
                    return
                te = _stmt_end(body, q + 1)
                if pos < te:
                    scan(q + 1, te)
                    return
                k = _skip_ws(body, te)
                if m.group(1) == 'if' and re.match(r'else\b', body[k:]):
                    scan(k + 4, e)
                return
            if re.match(r'else\b', body[i:]):
                scan(i + 4, e)
                return
            if re.match(r'do\b', body[i:]):
                scan(i + 2, e)
            return
    scan(0, len(body))
    return out


def function_at(text, pos):
    """(header text, offset of the opening brace, offset of the closing brace) of the C function definition enclosing pos;
    Tempita placeholders in the header are tolerated.  A definition starts at column 0 and its header ends with `) {`."""
    best = None
    for m in re.finditer(r'^(?![ \t#/}])[^\n;]*(?:\n[^\n;{}]*)*?\)\s*\{[ \t]*$', text[:pos], re.M):
        best = m
    if best is None:
        return None
    b0 = best.end() - 1
    while text[b0] != '{':
        b0 -= 1
    b1 = _match_brace(text, b0)
    if not (b0 < pos <= b1):
        return None
    return best.group(0), b0, b1
