"""E2 — syntax-directed forward dataflow over the statement structure of one Python function.

No graph library is needed: the analysis walks the structured statements (if/for/while/try/with/
return/raise/break/continue/match) and propagates *sets of abstract states* (path-sensitive up to
state equality).  A state is a frozenset of hashable facts.  The client supplies

    transfer(stmt_or_expr_node, state) -> state            # effect of one simple statement / test
    (optional) refine(test_expr, truth, state) -> state | None   # None = infeasible branch

Branch correlation: the truth value of side-effect-free tests is remembered as a fact
('?', text, bool) so that `if x: A ... if x: B` does not produce the infeasible path A-without-B.
Facts about a test are dropped when a name it mentions is re-assigned.
"""
import ast

MAX_STATES = 256


class TooManyStates(Exception):
    pass


class Outcome:
    __slots__ = ('normal', 'returns', 'raises', 'breaks', 'continues')

    def __init__(self):
        self.normal, self.returns, self.raises, self.breaks, self.continues = set(), set(), set(), set(), set()

    def absorb_exits(self, o):
        self.returns |= o.returns
        self.raises |= o.raises
        self.breaks |= o.breaks
        self.continues |= o.continues


def _pure_test(e):
    """Tests whose truth can be correlated: names, attributes, constants, not/and/or, is/==/in comparisons,
    isinstance()/len()/hasattr() calls and attribute-method predicates without arguments."""
    for n in ast.walk(e):
        if isinstance(n, (ast.Name, ast.Attribute, ast.Constant, ast.UnaryOp, ast.BoolOp, ast.Compare,
                          ast.Load, ast.Not, ast.And, ast.Or, ast.Is, ast.IsNot, ast.Eq, ast.NotEq, ast.In, ast.NotIn,
                          ast.Lt, ast.LtE, ast.Gt, ast.GtE, ast.Tuple, ast.Subscript, ast.USub, ast.List)):
            continue
        if isinstance(n, ast.Call):
            continue
        return False
    return True


def _names_in(e):
    out = set()
    for n in ast.walk(e):
        if isinstance(n, ast.Name):
            out.add(n.id)
        elif isinstance(n, ast.Attribute):
            out.add(ast.unparse(n))
    return out


def _assigned_names(stmt):
    out = set()
    for n in ast.walk(stmt):
        if isinstance(n, (ast.Name, ast.Attribute)) and isinstance(getattr(n, 'ctx', None), (ast.Store, ast.Del)):
            out.add(ast.unparse(n))
        elif isinstance(n, ast.NamedExpr) and isinstance(n.target, ast.Name):
            out.add(n.target.id)
    return out


class Flow:
    def __init__(self, transfer, refine=None, on_state=None, correlate=True, raise_in_try=True):
        self.transfer = transfer
        self.refine = refine
        self.correlate = correlate
        self._try_collect = []   # stack of sets collecting states seen inside try bodies
        self.raise_in_try = raise_in_try

    # ------------------------------------------------------------------ helpers
    def _kill(self, stmt, state):
        if not self.correlate:
            return state
        assigned = _assigned_names(stmt)
        if not assigned:
            return state
        out = set()
        for f in state:
            if isinstance(f, tuple) and f and f[0] == '?':
                if any(a in f[3] or any(x.startswith(a + '.') for x in f[3]) for a in assigned):
                    continue
            out.add(f)
        return frozenset(out)

    def _apply(self, node, states):
        out = set()
        for s in states:
            s2 = self.transfer(node, s)
            if s2 is None:
                continue
            if isinstance(node, ast.stmt):
                s2 = self._kill(node, s2)
            out.add(s2)
        if len(out) > MAX_STATES:
            raise TooManyStates()
        for c in self._try_collect:
            c |= out
        return out

    def _branch(self, test, states):
        """Evaluate a test on each state; return (true_states, false_states)."""
        states = self._apply(test, states)
        t_out, f_out = set(), set()
        txt = None
        if self.correlate and _pure_test(test):
            neg = False
            core = test
            while isinstance(core, ast.UnaryOp) and isinstance(core.op, ast.Not):
                neg = not neg
                core = core.operand
            txt = (ast.unparse(core), neg, frozenset(_names_in(core)))
        const = None
        if isinstance(test, ast.Constant):
            const = bool(test.value)
        for s in states:
            for truth, sink in ((True, t_out), (False, f_out)):
                if const is not None and const != truth:
                    continue
                s2 = s
                if txt is not None:
                    core_truth = truth != txt[1]
                    if ('?', txt[0], not core_truth, txt[2]) in s:
                        continue
                    s2 = s | {('?', txt[0], core_truth, txt[2])}
                    # conjunction/disjunction components
                    s2 = self._decompose(test, truth, s2)
                    if s2 is None:
                        continue
                if self.refine is not None:
                    s2 = self.refine(test, truth, s2)
                    if s2 is None:
                        continue
                sink.add(frozenset(s2))
        return t_out, f_out

    def _decompose(self, test, truth, s):
        """`a and b` true => a true, b true;  `a or b` false => both false; `not x`."""
        if isinstance(test, ast.UnaryOp) and isinstance(test.op, ast.Not):
            return self._decompose(test.operand, not truth, s)
        if isinstance(test, ast.BoolOp):
            if (isinstance(test.op, ast.And) and truth) or (isinstance(test.op, ast.Or) and not truth):
                for v in test.values:
                    s = self._decompose(v, truth, s)
                    if s is None:
                        return None
            return s
        if _pure_test(test):
            t = ast.unparse(test)
            nm = frozenset(_names_in(test))
            if ('?', t, not truth, nm) in s:
                return None
            return s | {('?', t, truth, nm)}
        return s

    # ------------------------------------------------------------------ blocks
    def run(self, fn, init=frozenset()):
        o = self.block(fn.body, {frozenset(init)})
        return o

    def block(self, stmts, states):
        o = Outcome()
        cur = set(states)
        for s in stmts:
            if not cur:
                break
            r = self.stmt(s, cur)
            o.absorb_exits(r)
            cur = merge_correlation(r.normal)
        o.normal = cur
        return o

    def stmt(self, s, states):
        o = Outcome()
        if isinstance(s, ast.If):
            t, f = self._branch(s.test, states)
            a = self.block(s.body, t)
            b = self.block(s.orelse, f) if s.orelse else None
            o.absorb_exits(a)
            o.normal |= a.normal
            if b is not None:
                o.absorb_exits(b)
                o.normal |= b.normal
            else:
                o.normal |= f
        elif isinstance(s, (ast.For, ast.AsyncFor, ast.While)):
            self._loop(s, states, o)
        elif isinstance(s, (ast.Try, getattr(ast, 'TryStar', ast.Try))):
            self._try(s, states, o)
        elif isinstance(s, (ast.With, ast.AsyncWith)):
            cur = states
            for it in s.items:
                cur = self._apply(it, cur)
            r = self.block(s.body, cur)
            o.absorb_exits(r)
            o.normal = r.normal
        elif isinstance(s, ast.Return):
            o.returns |= self._apply(s, states)
        elif isinstance(s, ast.Raise):
            o.raises |= self._apply(s, states)
        elif isinstance(s, ast.Break):
            o.breaks |= states
        elif isinstance(s, ast.Continue):
            o.continues |= states
        elif isinstance(s, ast.Assert):
            # an assert is a guard: the false branch raises
            t, f = self._branch(s.test, states)
            o.normal = t
            o.raises |= f
        elif isinstance(s, ast.Match):
            cur = self._apply(s.subject, states)
            exhaustive = False
            for c in s.cases:
                r = self.block(c.body, cur)
                o.absorb_exits(r)
                o.normal |= r.normal
                if isinstance(c.pattern, ast.MatchAs) and c.pattern.pattern is None and c.guard is None:
                    exhaustive = True
            if not exhaustive:
                o.normal |= cur
        elif isinstance(s, (ast.FunctionDef, ast.AsyncFunctionDef, ast.ClassDef)):
            o.normal = self._apply(s, states)
        else:
            o.normal = self._apply(s, states)
        return o

    def _loop(self, s, states, o):
        is_while = isinstance(s, ast.While)
        infinite = is_while and isinstance(s.test, ast.Constant) and bool(s.test.value)
        entry = set(states)
        if not is_while:
            entry = self._apply(s.iter, entry)
        seen_heads = set()
        heads = set(entry)
        exit_normal = set()
        breaks = set()
        for _ in range(12):
            new = heads - seen_heads
            if not new:
                break
            seen_heads |= new
            if is_while:
                t, f = self._branch(s.test, new)
                if not infinite:
                    exit_normal |= f
            else:
                t = self._apply(s.target, new)
                nonempty_literal = isinstance(s.iter, (ast.List, ast.Tuple)) and len(s.iter.elts) > 0
                if not (nonempty_literal and _ == 0):
                    # a loop over a non-empty literal sequence runs its body at least once
                    exit_normal |= new
            r = self.block(s.body, t)
            o.returns |= r.returns
            o.raises |= r.raises
            breaks |= r.breaks
            heads = r.normal | r.continues
        else:
            # did not converge: fall back to merging everything
            exit_normal |= heads
        if s.orelse:
            r = self.block(s.orelse, exit_normal)
            o.absorb_exits(r)
            o.normal |= r.normal
        else:
            o.normal |= exit_normal
        o.normal |= breaks

    def _try(self, s, states, o):
        collected = set(states)
        self._try_collect.append(collected)
        try:
            body = self.block(s.body, states)
        finally:
            self._try_collect.pop()
        res = Outcome()
        res.returns |= body.returns
        res.breaks |= body.breaks
        res.continues |= body.continues
        if s.orelse:
            r = self.block(s.orelse, body.normal)
            res.absorb_exits(r)
            res.normal |= r.normal
        else:
            res.normal |= body.normal
        # exceptions raised inside the body: explicit raises plus (optionally) any statement
        exc_states = set(body.raises)
        if self.raise_in_try:
            exc_states |= collected
        if s.handlers:
            catches_all = False
            for h in s.handlers:
                hs = exc_states
                if h.name:
                    pass
                r = self.block(h.body, hs)
                res.absorb_exits(r)
                res.normal |= r.normal
                if h.type is None or (isinstance(h.type, ast.Name) and h.type.id in ('BaseException', 'Exception')):
                    catches_all = True
            if not catches_all:
                res.raises |= body.raises
        else:
            res.raises |= body.raises
        if s.finalbody:
            fin = Outcome()
            for kind in ('normal', 'returns', 'raises', 'breaks', 'continues'):
                st = getattr(res, kind)
                if not st:
                    continue
                r = self.block(s.finalbody, st)
                fin.absorb_exits(r)
                getattr(fin, kind).update(r.normal)
            # implicit exceptions propagating through finally are not modelled as exits (error paths)
            res = fin
        o.absorb_exits(res)
        o.normal |= res.normal


def merge_correlation(states):
    """States that agree on all client facts are merged; of their branch-correlation facts ('?', ...) only the
    common ones survive.  Correlation is thus kept exactly where it distinguishes client-visible states."""
    if len(states) < 2:
        return states
    groups = {}
    for st in states:
        core = frozenset(f for f in st if not (isinstance(f, tuple) and f and f[0] == '?'))
        q = frozenset(f for f in st if isinstance(f, tuple) and f and f[0] == '?')
        if core in groups:
            groups[core] = groups[core] & q
        else:
            groups[core] = q
    return {core | q for core, q in groups.items()}


def calls_in(node):
    """All Call nodes inside a statement/expression in evaluation-ish (source) order, not descending into
    nested function definitions or lambdas."""
    out = []

    def rec(n):
        if isinstance(n, (ast.FunctionDef, ast.AsyncFunctionDef, ast.ClassDef, ast.Lambda)):
            return
        for ch in ast.iter_child_nodes(n):
            rec(ch)
        if isinstance(n, ast.Call):
            out.append(n)
    rec(node)
    return out


def simple_stmt_node(node):
    """transfer() receives: simple statements, test expressions, loop iter/target expressions, withitems,
    match subjects.  Compound statements are never passed."""
    return node
