"""Abstract interpreter for small integer-manipulating Python functions (LineTable.py, LZSS.py token encoder)
over the domain of engine/absint.py.  Path-sensitive (forks on undecidable tests), loops by widening."""
import ast

from ..core import AnalysisError
from .absint import AV, State, W, const, binop, refine_cmp

OPS = {ast.Add: '+', ast.Sub: '-', ast.BitAnd: '&', ast.BitOr: '|', ast.BitXor: '^', ast.LShift: '<<', ast.RShift: '>>', ast.Mult: '*'}
CMP = {ast.Lt: '<', ast.LtE: '<=', ast.Gt: '>', ast.GtE: '>=', ast.Eq: '==', ast.NotEq: '!='}


class Emit:
    """One emitted output element: kind 'byte' with an abstract value, tagged with the loop depth it was emitted at."""
    def __init__(self, av, where, in_loop, tag=None):
        self.av, self.where, self.in_loop, self.tag = av, where, in_loop, tag

    def __repr__(self):
        return 'Emit(%s%s @%s %r)' % ('loop ' if self.in_loop else '', self.tag or '', self.where, self.av)


class PyAbs:
    def __init__(self, functions, sink_names=('append',), max_states=64):
        self.functions = functions       # name -> FunctionDef (same module, for inlining)
        self.sink_names = sink_names
        self.max_states = max_states
        self.call_log = []               # (state id, callee, [arg AVs], [arg source]) in order

    # ------------------------------------------------------------ expressions
    def expr_atom(self, st, node, lo=None, hi=None):
        key = 'expr:' + ast.unparse(node)
        ea = st.env.get(key)
        if ea is None:
            a = st.atom('(' + ast.unparse(node) + ')', lo, hi)
            st.env[key] = a
            ea = a
        else:
            olo, ohi = st.rng.get(ea, (None, None))
            nlo = lo if olo is None else (olo if lo is None else max(olo, lo))
            nhi = hi if ohi is None else (ohi if hi is None else min(ohi, hi))
            st.rng[ea] = (nlo, nhi)
        return st.atom_av(ea)

    def ev(self, st, n):
        if isinstance(n, ast.Constant):
            if isinstance(n.value, bool):
                return const(int(n.value))
            if isinstance(n.value, int):
                return const(n.value)
            return AV()
        if isinstance(n, ast.Name):
            v = st.env.get(n.id)
            if isinstance(v, AV):
                return st.norm(v)
            return AV()
        if isinstance(n, ast.BinOp) and type(n.op) in OPS:
            a, b = self.ev(st, n.left), self.ev(st, n.right)
            r = binop(st, OPS[type(n.op)], a, b)
            if r.lin is None and all(x is None for x in r.bits):
                # not expressible: name the expression itself so that guards on it and uses of it correlate
                ea = self.expr_atom(st, n, r.lo, r.hi)
                return ea
            return r
        if isinstance(n, ast.UnaryOp) and isinstance(n.op, ast.USub):
            a = self.ev(st, n.operand)
            if a.lo is not None and a.lo == a.hi:
                return const(-a.lo)
            return AV()
        if isinstance(n, ast.Call) and isinstance(n.func, ast.Name) and n.func.id in ('min', 'max') and len(n.args) == 2:
            a, b = self.ev(st, n.args[0]), self.ev(st, n.args[1])
            f = min if n.func.id == 'min' else max
            lo = f(a.lo, b.lo) if a.lo is not None and b.lo is not None else None
            hi = f(a.hi, b.hi) if a.hi is not None and b.hi is not None else None
            if n.func.id == 'min':
                his = [h for h in (a.hi, b.hi) if h is not None]
                hi = min(his) if his else None
            return AV(lo, hi, None, None)
        if isinstance(n, ast.Call) and isinstance(n.func, ast.Attribute) and n.func.attr == 'cast' and len(n.args) == 2:
            return self.ev(st, n.args[1])
        if isinstance(n, ast.Subscript):
            # data[pos] : a byte
            return self.expr_atom(st, n, 0, 255) if self.byte_subscripts else AV()
        return AV()

    byte_subscripts = False

    # ------------------------------------------------------------ conditions
    def cond(self, st, test):
        """-> list of (state, truth) successor states for the test (forking when undecidable)."""
        if isinstance(test, ast.BoolOp):
            if isinstance(test.op, ast.And):
                outs = []
                cur = [st]
                for v in test.values:
                    nxt = []
                    for s in cur:
                        for s2, t in self.cond(s, v):
                            if t:
                                nxt.append(s2)
                            else:
                                outs.append((s2, False))
                    cur = nxt
                return outs + [(s, True) for s in cur]
            else:
                outs = []
                cur = [st]
                for v in test.values:
                    nxt = []
                    for s in cur:
                        for s2, t in self.cond(s, v):
                            if t:
                                outs.append((s2, True))
                            else:
                                nxt.append(s2)
                    cur = nxt
                return outs + [(s, False) for s in cur]
        if isinstance(test, ast.UnaryOp) and isinstance(test.op, ast.Not):
            return [(s, not t) for s, t in self.cond(st, test.operand)]
        if isinstance(test, ast.Compare):
            # chained comparison a op b op c  ==  (a op b) and (b op c)
            if len(test.ops) > 1:
                parts = []
                left = test.left
                for op, right in zip(test.ops, test.comparators):
                    parts.append(ast.Compare(left=left, ops=[op], comparators=[right]))
                    left = right
                return self.cond(st, ast.BoolOp(op=ast.And(), values=parts))
            op = CMP.get(type(test.ops[0]))
            if op is None:
                return [(st.copy(), True), (st.copy(), False)]
            a, b = self.ev(st, test.left), self.ev(st, test.comparators[0])
            # orient: variable side vs constant side
            flip = {'<': '>', '<=': '>=', '>': '<', '>=': '<=', '==': '==', '!=': '!='}
            if b.lo is not None and b.lo == b.hi:
                var, c, o = a, b.lo, op
            elif a.lo is not None and a.lo == a.hi:
                var, c, o = b, a.lo, flip[op]
            else:
                # relation between two unknowns: decide it on the difference expression a - b
                diff = ast.BinOp(left=test.left, op=ast.Sub(), right=test.comparators[0])
                return self.cond(st, ast.Compare(left=diff, ops=test.ops, comparators=[ast.Constant(value=0)]))
            outs = []
            for truth in (True, False):
                s2 = st.copy()
                v2 = self.ev(s2, test.left if var is a else test.comparators[0])
                if refine_cmp(s2, v2, o, c, truth):
                    outs.append((s2, truth))
            return outs
        if isinstance(test, ast.Constant):
            return [(st, bool(test.value))]
        return [(st.copy(), True), (st.copy(), False)]

    # ------------------------------------------------------------ statements
    def run_function(self, fn, st, args, depth=0):
        """Execute fn abstractly; returns list of (state, return AV or None)."""
        if depth > 4:
            raise AnalysisError('inlining too deep in %s' % fn.name)
        saved = st.env
        st.env = {k: v for k, v in saved.items() if k.startswith('expr:') is False and False}
        params = [a.arg for a in fn.args.args]
        for p, v in zip(params, args):
            st.env[p] = v
        res = self.block(fn.body, [st], depth, 0)
        outs = []
        for s, kind, val in res:
            s.env = dict(saved)
            outs.append((s, val))
        return outs

    def block(self, stmts, states, depth, loopd):
        """-> list of (state, kind, value) with kind in 'fall'|'return'."""
        cur = list(states)
        done = []
        for s in stmts:
            nxt = []
            for st in cur:
                for r in self.stmt(s, st, depth, loopd):
                    if r[1] == 'fall':
                        nxt.append(r[0])
                    else:
                        done.append(r)
            cur = nxt
            if len(cur) + len(done) > self.max_states:
                raise AnalysisError('abstract interpretation: too many path states')
        return done + [(st, 'fall', None) for st in cur]

    def assign(self, st, name, av, node):
        """Bind a variable.  A value that is neither linear in an atom nor bit-structured is renamed to a fresh atom."""
        av = st.norm(av)
        if av.lin is None and all(b is None for b in av.bits):
            a = st.atom(name, av.lo, av.hi)
            av = st.atom_av(a)
        elif av.lin is not None and av.lin[1] != 0 and not (av.lo is not None and av.lo == av.hi):
            # y = x - 3 : rename to a fresh atom related to x, so that bit fields of y have a provenance
            a = st.atom(name, av.lo, av.hi)
            st.rel[a] = st.root(av.lin)
            av = st.atom_av(a)
        st.env[name] = av

    def stmt(self, s, st, depth, loopd):
        if isinstance(s, (ast.Assign, ast.AnnAssign)):
            val = s.value
            tgts = s.targets if isinstance(s, ast.Assign) else [s.target]
            if val is None:
                return [(st, 'fall', None)]
            if isinstance(val, ast.Call):
                r = self.call(st, val, depth, loopd)
                if r is not None:
                    outs = []
                    for s2, v in r:
                        for t in tgts:
                            if isinstance(t, ast.Name):
                                self.assign(s2, t.id, v if v is not None else AV(), s)
                        outs.append((s2, 'fall', None))
                    return outs
            for t in tgts:
                if isinstance(t, ast.Name):
                    self.assign(st, t.id, self.ev(st, val), s)
                elif isinstance(t, ast.Tuple) and isinstance(val, ast.Name):
                    # a, b, c, d = position_info  -> fresh unknown atoms provided by the driver
                    for e in t.elts:
                        if isinstance(e, ast.Name) and e.id not in st.env:
                            st.env[e.id] = st.atom_av(st.atom(e.id))
            return [(st, 'fall', None)]
        if isinstance(s, ast.AugAssign) and isinstance(s.target, ast.Name) and type(s.op) in OPS:
            old = self.ev(st, s.target)
            new = binop(st, OPS[type(s.op)], old, self.ev(st, s.value))
            # x -= c : rename to a fresh atom with a recorded relation so that fields of the new x can be related to the old
            new = st.norm(new)
            if new.lin is not None:
                a = st.atom(s.target.id, new.lo, new.hi)
                st.rel[a] = st.root(new.lin)
                st.env[s.target.id] = st.atom_av(a)
            else:
                self.assign(st, s.target.id, new, s)
            return [(st, 'fall', None)]
        if isinstance(s, ast.If):
            outs = []
            for s2, truth in self.cond(st, s.test):
                body = s.body if truth else s.orelse
                outs += self.block(body, [s2], depth, loopd)
            return outs
        if isinstance(s, ast.Assert):
            outs = []
            for s2, truth in self.cond(st, s.test):
                if truth:
                    outs.append((s2, 'fall', None))
            return outs
        if isinstance(s, ast.While):
            return self.loop(s, st, depth, loopd)
        if isinstance(s, ast.Return):
            v = None
            if s.value is not None:
                v = self.ev(st, s.value)
                st.notes.append(('return', ast.unparse(s.value), s.lineno))
            return [(st, 'return', v)]
        if isinstance(s, ast.Expr):
            if isinstance(s.value, ast.Call):
                r = self.call(st, s.value, depth, loopd)
                if r is not None:
                    return [(s2, 'fall', None) for s2, v in r]
            return [(st, 'fall', None)]
        if isinstance(s, (ast.Pass,)):
            return [(st, 'fall', None)]
        # anything else: ignored (no integer effect tracked)
        return [(st, 'fall', None)]

    def loop(self, s, st, depth, loopd):
        """while test: body — widening: variables assigned in the body get their upper/lower bound dropped in the
        direction they move; the body is analysed once under the (refined) widened state."""
        assigned = {n.target.id for n in ast.walk(s) if isinstance(n, ast.AugAssign) and isinstance(n.target, ast.Name)} | \
                   {t.id for n in ast.walk(s) if isinstance(n, ast.Assign) for t in n.targets if isinstance(t, ast.Name)}
        w = st.copy()
        for v in assigned:
            old = w.env.get(v)
            if isinstance(old, AV):
                old = w.norm(old)
                # >>= shrinks towards 0: keep [0, hi]; otherwise forget the bounds
                shrink = any(isinstance(n, ast.AugAssign) and isinstance(n.target, ast.Name) and n.target.id == v and isinstance(n.op, ast.RShift) for n in ast.walk(s))
                if shrink and old.lo is not None and old.lo >= 0:
                    a = w.atom(v, 0, old.hi)
                else:
                    a = w.atom(v, None, None)
                w.env[v] = w.atom_av(a)
        outs, exits, loop_emits = [], [], []
        n0 = len(w.out)
        for s2, truth in self.cond(w, s.test):
            if truth:
                for r in self.block(s.body, [s2], depth, loopd + 1):
                    if r[1] == 'return':
                        outs.append(r)
                    else:
                        loop_emits = r[0].out[n0:]
            else:
                exits.append(s2)
        for ex in exits:
            # zero or more repetitions of the body's emissions precede whatever follows the loop
            ex.out = ex.out[:n0] + loop_emits + ex.out[n0:]
            outs.append((ex, 'fall', None))
        return outs

    def call(self, st, c, depth, loopd):
        """-> list of (state, value) or None if the call is not modelled."""
        # output.append(E) / table_bytes.append(chr(E)) / append(f"{a:c}{b:c}")
        if isinstance(c.func, ast.Attribute) and c.func.attr in self.sink_names and len(c.args) == 1:
            for av in self.bytes_of(st, c.args[0]):
                st.out.append(Emit(av, c.lineno, loopd > 0))
            return [(st, None)]
        if isinstance(c.func, ast.Name) and c.func.id in self.functions:
            fn = self.functions[c.func.id]
            args = [self.ev(st, a) for a in c.args]
            st.notes.append(('call', fn.name, [ast.unparse(a) for a in c.args], c.lineno, len(st.out)))
            sub = st.copy()
            sub_env_saved = dict(sub.env)
            params = [a.arg for a in fn.args.args]
            sub.env = {k: v for k, v in sub_env_saved.items() if k.startswith('expr:')}
            # positional args that are not integers (lists) are skipped
            for p, a, src in zip(params, args, c.args):
                sub.env[p] = a
            res = self.block(fn.body, [sub], depth + 1, loopd)
            outs = []
            for s2, kind, val in res:
                keep = {k: v for k, v in s2.env.items() if k.startswith('expr:')}
                s2.env = dict(sub_env_saved)
                s2.env.update(keep)
                outs.append((s2, val))
            return outs
        return None

    def bytes_of(self, st, e):
        if isinstance(e, ast.Call) and isinstance(e.func, ast.Name) and e.func.id == 'chr' and e.args:
            return [self.ev(st, e.args[0])]
        if isinstance(e, ast.JoinedStr):
            out = []
            for v in e.values:
                if isinstance(v, ast.FormattedValue):
                    spec = ast.unparse(v.format_spec) if v.format_spec is not None else ''
                    if 'c' in spec:
                        out.append(self.ev(st, v.value))
                    else:
                        out.append(AV())
                elif isinstance(v, ast.Constant):
                    out += [const(ord(ch)) for ch in v.value]
            return out
        return [self.ev(st, e)]
