"""Abstract evaluation of a C statement block (clang JSON AST) over the domain of engine/absint.py.
Used for the LZSS decoder: array reads from the input pointer pop successive abstract input bytes."""
from ..core import AnalysisError
from .absint import AV, State, const, binop, refine_cmp, c_strip, c_name, c_walk

BIN = {'+', '-', '&', '|', '^', '<<', '>>', '*'}


class Undecided(Exception):
    pass


class CAbs:
    def __init__(self, st, inputs, input_name='src'):
        self.st = st
        self.env = {}
        self.inputs = list(inputs)
        self.consumed = 0
        self.input_name = input_name
        self.calls = []          # (callee, [arg AV or None], [arg text])
        self.advances = {}       # var -> list of AVs added via +=
        self.trace = []

    def read_input(self):
        if self.consumed >= len(self.inputs):
            self.consumed += 1
            return AV(0, 255)
        v = self.inputs[self.consumed]
        self.consumed += 1
        return v

    def ev(self, n):
        n = c_strip(n)
        k = n.get('kind')
        if k == 'IntegerLiteral':
            return const(int(n['value']))
        if k == 'DeclRefExpr':
            nm = c_name(n)
            v = self.env.get(nm)
            return self.st.norm(v) if isinstance(v, AV) else AV()
        if k == 'ArraySubscriptExpr':
            base, idx = n['inner'][0], n['inner'][1]
            if c_name(base) == self.input_name:
                self.ev(idx)   # side effect pos++
                return self.read_input()
            self.ev(idx)
            return AV(0, 255)
        if k == 'UnaryOperator':
            op = n.get('opcode')
            sub = n['inner'][0]
            if op in ('++', '--'):
                nm = c_name(sub)
                old = self.env.get(nm, AV())
                self.env[nm] = binop(self.st, '+' if op == '++' else '-', old if isinstance(old, AV) else AV(), const(1))
                return old if n.get('isPostfix') else self.env[nm]
            v = self.ev(sub)
            if op == '!':
                t = self.truth(v)
                if t is None:
                    raise Undecided()
                return const(0 if t else 1)
            if op == '-':
                return AV()
            return v
        if k == 'BinaryOperator':
            op = n.get('opcode')
            l, r = n['inner']
            if op == '=':
                v = self.ev(r)
                nm = c_name(l)
                if nm:
                    self.env[nm] = v
                else:
                    self.ev(l)
                return v
            if op == ',':
                self.ev(l)
                return self.ev(r)
            a, b = self.ev(l), self.ev(r)
            if op in BIN:
                return binop(self.st, op, a, b)
            if op in ('<', '<=', '>', '>=', '==', '!='):
                a, b = self.st.norm(a), self.st.norm(b)
                if a.lo is not None and b.lo is not None and a.lo == a.hi and b.lo == b.hi:
                    import operator
                    f = {'<': operator.lt, '<=': operator.le, '>': operator.gt, '>=': operator.ge, '==': operator.eq, '!=': operator.ne}[op]
                    return const(int(f(a.lo, b.lo)))
                return AV(0, 1)
            return AV()
        if k == 'CompoundAssignOperator':
            op = n.get('opcode')[:-1]
            l, r = n['inner']
            nm = c_name(l)
            old = self.env.get(nm, AV())
            rv = self.ev(r)
            new = binop(self.st, op, old if isinstance(old, AV) else AV(), rv) if op in BIN else AV()
            self.env[nm] = new
            self.advances.setdefault(nm, []).append((op, rv, c_name(r)))
            return new
        if k == 'CallExpr':
            callee = c_name(n['inner'][0])
            args = n['inner'][1:]
            self.calls.append((callee, [self.ev(a) for a in args], [c_name(a) for a in args], args))
            return AV()
        if k == 'ConditionalOperator':
            c, a, b = n['inner']
            t = self.truth(self.ev(c))
            if t is None:
                raise Undecided()
            return self.ev(a if t else b)
        return AV()

    def truth(self, v):
        v = self.st.norm(v)
        if v.lo is not None and v.lo == v.hi:
            return v.lo != 0
        if v.lo is not None and v.lo > 0:
            return True
        if any(b == 1 for b in v.bits):
            return True
        return None

    def clone(self):
        c = CAbs(self.st, self.inputs, self.input_name)
        c.env = dict(self.env)
        c.consumed = self.consumed
        c.calls = list(self.calls)
        c.advances = {k: list(v) for k, v in self.advances.items()}
        c.trace = list(self.trace)
        return c

    def run_all(self, stmt):
        """Execute stmt; an undecidable `if` forks.  Returns the list of final evaluator states."""
        stmts = stmt.get('inner', []) if stmt.get('kind') == 'CompoundStmt' else [stmt]
        return self._seq(list(stmts))

    def _seq(self, stmts):
        cur = self
        for i, s in enumerate(stmts):
            k = s.get('kind')
            if k == 'CompoundStmt':
                return cur._seq(list(s.get('inner', [])) + stmts[i + 1:])
            if k == 'IfStmt':
                inner = s['inner']
                cond, then = inner[0], inner[1]
                els = inner[2] if len(inner) > 2 else None
                try:
                    t = cur.truth(cur.ev(cond))
                except Undecided:
                    t = None
                rest = stmts[i + 1:]
                outs = []
                for branch, taken in ((then, True), (els, False)):
                    if t is not None and t != taken:
                        continue
                    c2 = cur.clone() if t is None else cur
                    c2.trace.append(('if', taken, t is None))
                    outs += c2._seq(([branch] if branch is not None else []) + rest)
                return outs
            if k == 'ReturnStmt':
                return [cur]
            if k in ('WhileStmt', 'ForStmt', 'DoStmt'):
                raise AnalysisError('loop inside the analysed C block')
            if k == 'DeclStmt':
                cur.run(s)
            else:
                try:
                    cur.ev(s)
                except Undecided:
                    pass
        return [cur]

    def run(self, stmt):
        k = stmt.get('kind')
        if k == 'CompoundStmt':
            for s in stmt.get('inner', []):
                r = self.run(s)
                if r == 'return':
                    return r
            return None
        if k == 'DeclStmt':
            for d in stmt.get('inner', []):
                if d.get('kind') == 'VarDecl':
                    init = [c for c in d.get('inner', []) if isinstance(c, dict) and c.get('kind', '').endswith(('Expr', 'Operator', 'Literal'))]
                    self.env[d['name']] = self.ev(init[0]) if init else AV()
            return None
        if k == 'IfStmt':
            inner = stmt['inner']
            cond, then = inner[0], inner[1]
            els = inner[2] if len(inner) > 2 else None
            t = self.truth(self.ev(cond))
            if t is None:
                raise Undecided()
            self.trace.append(('if', t))
            if t:
                return self.run(then)
            if els is not None:
                return self.run(els)
            return None
        if k == 'ReturnStmt':
            return 'return'
        if k in ('WhileStmt', 'ForStmt', 'DoStmt'):
            raise AnalysisError('loop inside the analysed C block')
        self.ev(stmt)
        return None
